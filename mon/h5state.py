"""Raw-h5py inspection of cooler collections: content digests and the schema_v3
validator (C02's oracle). Nothing here calls cooler."""
from __future__ import annotations

import hashlib
import json

import h5py
import numpy as np


def _names(dset):
    a = dset[:]
    return [x.decode("utf8") if isinstance(x, bytes) else str(x) for x in a.tolist()]


def read_collection(grp, with_attrs=True):
    """Everything a collection stores, as plain numpy / python objects."""
    out = {"chroms": {}, "bins": {}, "pixels": {}, "indexes": {}, "attrs": {}}
    for tbl in ("chroms", "bins", "pixels", "indexes"):
        if tbl in grp:
            for col in grp[tbl]:
                ds = grp[tbl][col]
                if not isinstance(ds, h5py.Dataset):
                    continue
                if ds.dtype.kind == "S":
                    out[tbl][col] = np.array(_names(ds), dtype=object)
                else:
                    out[tbl][col] = np.asarray(ds[:])
    if with_attrs:
        for k, v in grp.attrs.items():
            if isinstance(v, np.generic):
                v = v.item()
            elif isinstance(v, np.ndarray):
                v = v.tolist()
            out["attrs"][k] = v
    return out


def _norm_attr(v):
    """numeric attributes compare by value (130 == 130.0): HDF5 attribute type is not content"""
    if isinstance(v, float) and v == v and v not in (float("inf"), float("-inf")) and float(v).is_integer():
        return int(v)
    return v


VOLATILE_ATTRS = {"creation-date", "generated-by", "format-url"}


def content_digest(grp, tables=("chroms", "bins", "pixels", "indexes"), attrs=True,
                   skip_attrs=VOLATILE_ATTRS, skip_cols=()):
    """Stable digest of a collection's content read through raw h5py."""
    m = hashlib.sha1()
    rc = read_collection(grp)
    for tbl in tables:
        for col in sorted(rc[tbl]):
            if (tbl, col) in skip_cols:
                continue
            a = rc[tbl][col]
            m.update(f"{tbl}/{col}:{a.dtype.kind}:{len(a)}|".encode())
            if a.dtype == object:
                m.update(json.dumps(a.tolist()).encode())
            elif a.dtype.kind == "f":
                m.update(np.ascontiguousarray(a.astype(np.float64)).tobytes())
            else:
                m.update(np.ascontiguousarray(a.astype(np.int64)).tobytes())
    if attrs:
        for k in sorted(rc["attrs"]):
            if k in skip_attrs:
                continue
            m.update(f"@{k}={_norm_attr(rc['attrs'][k])!r}|".encode())
    return m.hexdigest()


def digest_uri(path, group="/", **kw):
    with h5py.File(path, "r") as f:
        return content_digest(f[group], **kw)


def obj_addr(path, name):
    with h5py.File(path, "r") as f:
        return h5py.h5o.get_info(f[name].id).addr


def pixel_dict(grp, col="count"):
    b1 = grp["pixels/bin1_id"][:].tolist()
    b2 = grp["pixels/bin2_id"][:].tolist()
    v = grp["pixels/" + col][:].tolist() if col in grp["pixels"] else [None] * len(b1)
    return dict(zip(zip(b1, b2), v)), list(zip(b1, b2))


def conforms_fixed_arrays(chrom_ids, start, end, b):
    """every bin is [k*b, min((k+1)*b, length)) per chromosome."""
    n = len(start)
    i = 0
    while i < n:
        j = i
        while j < n and chrom_ids[j] == chrom_ids[i]:
            j += 1
        length = end[j - 1]
        for k in range(i, j):
            r = k - i
            if start[k] != r * b or end[k] != min((r + 1) * b, length):
                return False
        if (j - i) != -(-int(length) // int(b)):
            return False
        i = j
    return True


def validate_collection(grp, expect=None):
    """Return a list of (mechanism_key, message) schema violations of one collection.

    Clauses follow docs/schema_v3.rst and the statement of C02."""
    bad = []

    def err(key, msg):
        bad.append((key, msg))

    for tbl in ("chroms", "bins", "pixels", "indexes"):
        if tbl not in grp:
            err(f"missing-table:{tbl}", f"group {tbl} missing")
    if bad:
        return bad
    A = dict(grp.attrs.items())
    for k in ("format", "format-version", "bin-type", "bin-size", "storage-mode", "nbins",
              "nchroms", "nnz"):
        if k not in A:
            err(f"missing-attr:{k}", f"attribute {k} missing")
    if bad:
        return bad
    if A["format"] != "HDF5::Cooler":
        err("attr:format", f"format={A['format']!r}")
    if int(A["format-version"]) != 3:
        err("attr:format-version", f"format-version={A['format-version']!r}")
    mode = A["storage-mode"]
    if mode not in ("symmetric-upper", "square"):
        err("attr:storage-mode", f"storage-mode={mode!r}")

    # --- chroms
    cn = _names(grp["chroms/name"])
    cl = grp["chroms/length"][:]
    if len(cn) != len(cl):
        err("chroms:length-mismatch", "chroms/name and chroms/length differ in length")
    if len(set(cn)) != len(cn):
        err("chroms:duplicate-names", f"duplicate chromosome names {cn}")
    nchroms = len(cn)
    if int(A["nchroms"]) != nchroms:
        err("attr:nchroms", f"nchroms={A['nchroms']} but table has {nchroms}")

    # --- bins
    bc = np.asarray(grp["bins/chrom"][:]).astype(np.int64)
    bs = np.asarray(grp["bins/start"][:]).astype(np.int64)
    be = np.asarray(grp["bins/end"][:]).astype(np.int64)
    nbins = len(bc)
    for col in grp["bins"]:
        if len(grp["bins"][col]) != nbins:
            err("bins:column-length", f"bins/{col} has {len(grp['bins'][col])} rows, chrom has {nbins}")
    if int(A["nbins"]) != nbins:
        err("attr:nbins", f"nbins={A['nbins']} but table has {nbins}")
    if nbins:
        if bc.min() < 0 or bc.max() >= nchroms:
            err("bins:chrom-out-of-range", "bins/chrom id outside [0,nchroms)")
        if np.any(np.diff(bc) < 0):
            err("bins:chrom-not-sorted", "bins/chrom not non-decreasing")
        if np.any(be <= bs):
            err("bins:empty-or-negative", "a bin has end <= start")
        same = bc[1:] == bc[:-1]
        if np.any(bs[1:][same] != be[:-1][same]):
            err("bins:not-contiguous", "consecutive bins of a chromosome are not contiguous")
        first = np.r_[True, ~same]
        if np.any(bs[first] != 0):
            err("bins:first-start-nonzero", "a chromosome's first bin does not start at 0")
        last = np.r_[~same, True]
        if not bad:
            present = bc[last]
            if np.any(cl[present] != be[last]):
                err("chroms:length-vs-lastbin",
                    f"chroms/length {cl[present].tolist()} != last bin ends {be[last].tolist()}")
    enum = h5py.check_dtype(enum=grp["bins/chrom"].dtype)
    if enum is not None:
        ordered = sorted(enum, key=enum.__getitem__)
        if ordered != cn or sorted(enum.values()) != list(range(nchroms)):
            err("bins:enum-vs-chroms", f"bins/chrom enum {enum} disagrees with chroms/name {cn}")

    # --- pixels
    plen = {col: len(grp["pixels"][col]) for col in grp["pixels"]}
    nnz = int(A["nnz"])
    if len(set(plen.values())) > 1:
        err("pixels:column-lengths-differ", f"pixel columns have lengths {plen}")
    for col, ln in plen.items():
        if ln != nnz:
            err("pixels:length-vs-nnz", f"pixels/{col} has {ln} rows but nnz={nnz}")
            break
    if "bin1_id" not in plen or "bin2_id" not in plen:
        err("pixels:missing-id-columns", "bin1_id/bin2_id missing")
        return bad
    b1 = np.asarray(grp["pixels/bin1_id"][:]).astype(np.int64)
    b2 = np.asarray(grp["pixels/bin2_id"][:]).astype(np.int64)
    m = min(len(b1), len(b2))
    b1, b2 = b1[:m], b2[:m]
    if m:
        if b1.min() < 0 or b1.max() >= nbins or b2.min() < 0 or b2.max() >= nbins:
            err("pixels:id-out-of-range", f"bin ids outside [0,{nbins})")
        d1 = np.diff(b1)
        d2 = np.diff(b2)
        if np.any(d1 < 0) or np.any((d1 == 0) & (d2 <= 0)):
            k = int(np.flatnonzero((d1 < 0) | ((d1 == 0) & (d2 <= 0)))[0])
            kind = "duplicate" if (d1[k] == 0 and d2[k] == 0) else "unsorted"
            err(f"pixels:not-strictly-increasing:{kind}",
                f"rows {k},{k+1}: ({b1[k]},{b2[k]}) then ({b1[k+1]},{b2[k+1]})")
        if mode == "symmetric-upper" and np.any(b1 > b2):
            err("pixels:lower-triangle-in-symmetric-upper", "bin1_id > bin2_id present")

    # --- indexes
    if "bin1_offset" not in grp["indexes"] or "chrom_offset" not in grp["indexes"]:
        err("indexes:missing", "bin1_offset/chrom_offset missing")
        return bad
    bo = np.asarray(grp["indexes/bin1_offset"][:]).astype(np.int64)
    co = np.asarray(grp["indexes/chrom_offset"][:]).astype(np.int64)
    if len(bo) != nbins + 1:
        err("indexes:bin1_offset-length", f"bin1_offset has {len(bo)} entries, nbins+1={nbins+1}")
    else:
        ref = np.searchsorted(b1, np.arange(nbins + 1), side="left")
        if not np.array_equal(bo, ref):
            k = int(np.flatnonzero(bo != ref)[0])
            err("indexes:bin1_offset-wrong", f"bin1_offset[{k}]={bo[k]} expected {ref[k]}")
    if len(co) != nchroms + 1:
        err("indexes:chrom_offset-length", f"chrom_offset has {len(co)} entries, nchroms+1={nchroms+1}")
    else:
        ref = np.searchsorted(bc, np.arange(nchroms + 1), side="left")
        if not np.array_equal(co, ref):
            err("indexes:chrom_offset-wrong", f"chrom_offset={co.tolist()} expected {ref.tolist()}")

    # --- sum
    if "count" in grp["pixels"] and "sum" in A:
        cnt = grp["pixels/count"][:]
        if cnt.dtype.kind in "iu":
            tot = int(cnt.astype(object).sum()) if len(cnt) else 0
            if int(A["sum"]) != tot:
                err("attr:sum", f"sum={A['sum']} but column sums to {tot}")
        else:
            tot = float(np.sum(cnt.astype(np.float64)))
            if not np.isclose(float(A["sum"]), tot, rtol=1e-9, atol=1e-9):
                err("attr:sum", f"sum={A['sum']} but column sums to {tot}")

    # --- bin type / size
    bt, bsz = A["bin-type"], A["bin-size"]
    if bt == "fixed":
        try:
            b = int(bsz)
            ok = b > 0
        except (TypeError, ValueError):
            ok = False
        if not ok:
            err("attr:bin-size-not-int", f"bin-type fixed but bin-size={bsz!r}")
        elif nbins and not conforms_fixed_arrays(bc, bs, be, b):
            err("attr:bin-size-untrue", f"bin-type fixed, bin-size={b}, but some bin is not "
                                        f"[k*b, min((k+1)*b, length))")
    elif bt == "variable":
        if bsz != "null":
            err("attr:bin-size-variable-not-null", f"bin-type variable but bin-size={bsz!r}")
    else:
        err("attr:bin-type", f"bin-type={bt!r}")

    if expect:
        for k, v in expect.items():
            if k == "symmetric_upper":
                want = "symmetric-upper" if v else "square"
                if mode != want:
                    err("attr:storage-mode-not-as-requested", f"storage-mode={mode} requested {want}")
    return bad


def validate_uri(path, group="/", expect=None):
    with h5py.File(path, "r") as f:
        return validate_collection(f[group], expect)


def diff_uris(a, b, ga="/", gb="/"):
    """Human-readable differences between two collections (for witnesses)."""
    out = []
    with h5py.File(a, "r") as fa, h5py.File(b, "r") as fb:
        ra, rb = read_collection(fa[ga]), read_collection(fb[gb])
    for tbl in ("chroms", "bins", "pixels", "indexes"):
        for col in sorted(set(ra[tbl]) | set(rb[tbl])):
            x, y = ra[tbl].get(col), rb[tbl].get(col)
            if x is None or y is None:
                out.append(f"{tbl}/{col}: present in only one")
            elif x.dtype.kind != y.dtype.kind or len(x) != len(y) or x.tolist() != y.tolist():
                out.append(f"{tbl}/{col}: {x.dtype}{x.tolist()[:12]} vs {y.dtype}{y.tolist()[:12]}")
    for k in sorted(set(ra["attrs"]) | set(rb["attrs"])):
        if k in VOLATILE_ATTRS:
            continue
        if repr(_norm_attr(ra["attrs"].get(k))) != repr(_norm_attr(rb["attrs"].get(k))):
            out.append(f"@{k}: {ra['attrs'].get(k)!r} vs {rb['attrs'].get(k)!r}")
    return out
