"""Schedule adversary: map functors that honour the contract of the map they stand
for but realise hostile evaluation / completion orders deterministically, plus
helpers for real multiprocess pools with injected per-task delays."""
from __future__ import annotations

import os
import time
import zlib

import numpy as np


# ---- ordered functors (contract of builtin map / Pool.map: results in input order)
def eager_map(fn, items):
    return [fn(x) for x in items]


def reverse_eval_map(fn, items):
    """Evaluates the tasks last-to-first, returns results in input order."""
    items = list(items)
    out = [None] * len(items)
    for i in reversed(range(len(items))):
        out[i] = fn(items[i])
    return out


def make_shuffled_eval_map(seed):
    """Evaluates tasks in a seeded random order, returns results in input order."""
    def m(fn, items):
        items = list(items)
        rng = np.random.default_rng(seed + len(items))
        out = [None] * len(items)
        for i in rng.permutation(len(items)):
            out[int(i)] = fn(items[int(i)])
        return out
    m.__name__ = f"shuffled_eval_map_{seed}"
    return m


def lazy_gen_map(fn, items):
    """Lazy like builtin map but a generator (results pulled one at a time)."""
    for x in items:
        yield fn(x)


# ---- unordered functors (contract of Pool.imap_unordered: any completion order)
def make_unordered_map(seed, log=None):
    def m(fn, items):
        items = list(items)
        rng = np.random.default_rng(seed * 7919 + len(items))
        perm = [int(i) for i in rng.permutation(len(items))]
        if log is not None:
            log.append(tuple(perm))
        for i in perm:
            yield fn(items[i])
    m.__name__ = f"unordered_map_{seed}"
    return m


def make_bursty_unordered_map(seed, log=None):
    """Computes results in random-size batches, yields each batch in reversed order."""
    def m(fn, items):
        items = list(items)
        rng = np.random.default_rng(seed * 104729 + len(items))
        i = 0
        order = []
        while i < len(items):
            b = int(rng.integers(1, 5))
            batch = list(range(i, min(i + b, len(items))))
            res = [(j, fn(items[j])) for j in batch]
            for j, r in reversed(res):
                order.append(j)
                yield r
            i += b
        if log is not None:
            log.append(tuple(order))
    m.__name__ = f"bursty_unordered_map_{seed}"
    return m


def task_delay(key, seed=0, max_ms=4.0):
    """Deterministic per-task delay in seconds derived from (seed, key)."""
    h = zlib.crc32(repr((seed, key)).encode())
    return (h % 1000) / 1000.0 * max_ms / 1000.0


class DelayedTask:
    """Picklable wrapper: sleeps a task-dependent time around the whole task (the only
    suspension point that exists between tasks) and tags the result with pid/times."""

    def __init__(self, fn, seed, max_ms=4.0):
        self.fn = fn
        self.seed = seed
        self.max_ms = max_ms

    def __call__(self, x):
        t0 = time.monotonic_ns()
        time.sleep(task_delay(x, self.seed, self.max_ms))
        r = self.fn(x)
        return (x, os.getpid(), t0, time.monotonic_ns(), r)


def pool_map_tagged(pool_method, seed, log, ordered=True, max_ms=4.0):
    """Adapter: a map functor backed by a real pool method (map/imap/imap_unordered) that
    injects delays and records (task, pid, completion rank) into `log`."""
    def m(fn, items):
        items = list(items)
        res = pool_method(DelayedTask(fn, seed, max_ms), items)
        order, pids = [], []
        for (x, pid, t0, t1, r) in res:
            order.append(items.index(x) if x in items else -1)
            pids.append(pid)
            yield r
        log.append({"completion_order": tuple(order), "pids": tuple(pids)})
    return m
