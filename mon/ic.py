"""Dense reference of the documented iterative-correction (matrix balancing) procedure.

Works on the full symmetric matrix; no chunks, no pipeline, no HDF5. Conventions follow the
documentation of cooler.balance_cooler: a stored upper-triangle pixel contributes to the
marginal of both of its bins (so a diagonal pixel contributes twice)."""
from __future__ import annotations

import numpy as np


def mad(x):
    return np.median(np.abs(x - np.median(x)))


def marginal_matrix(P, n):
    """A2[i,j] = A2[j,i] = v for i<j, A2[i,i] = 2v: row sums are cooler's marginals."""
    A = np.zeros((n, n))
    for (i, j), v in P.items():
        if i == j:
            A[i, i] += 2.0 * v
        else:
            A[i, j] += v
            A[j, i] += v
    return A


def filtered(P, n, chrom_of, cis_only=False, trans_only=False, ignore_diags=2):
    """The matrix the sweeps balance (before weights), as a marginal matrix."""
    Q = {}
    for (i, j), v in P.items():
        if ignore_diags and abs(i - j) < ignore_diags:
            continue
        same = chrom_of[i] == chrom_of[j]
        if cis_only and not same:
            continue
        if trans_only and same:
            continue
        Q[(i, j)] = v
    return marginal_matrix(Q, n)


def ref_ic(P, n, chrom_of, cis_only=False, trans_only=False, ignore_diags=2, mad_max=5, min_nnz=10, min_count=0,
           blacklist=None, rescale_marginals=True, x0=None, tol=1e-5, max_iters=200):
    """Returns dict(bias, scale, var, converged, ties) - `ties` lists bins whose pre-filter
    decision sits on a threshold (tie band) so that callers can treat them as undecided."""
    chrom_of = np.asarray(chrom_of)
    offs = [0] + [int(k) + 1 for k in np.flatnonzero(np.diff(chrom_of))] + [n]
    ties = set()
    # base filters apply to the pre-filters too (cis_only, ignore_diags) but NOT trans_only
    B = filtered(P, n, chrom_of, cis_only=cis_only, trans_only=False, ignore_diags=ignore_diags)
    if x0 is not None:
        bias = np.array(x0, dtype=float)
        bias[np.isnan(bias)] = 0
    else:
        bias = np.ones(n)
    if min_nnz > 0:
        nnzm = (B != 0).astype(float)
        # a diagonal pixel counts twice in the binarised marginal
        cnt = nnzm.sum(axis=1) + (np.diag(B) != 0)
        bias[cnt < min_nnz] = 0
    marg = B.sum(axis=1)
    if min_count:
        bias[marg < min_count] = 0
    if mad_max > 0:
        m = marg.copy()
        with np.errstate(all="ignore"):
            for lo, hi in zip(offs[:-1], offs[1:]):
                c = m[lo:hi]
                pos = c[c > 0]
                m[lo:hi] = c / (np.median(pos) if len(pos) else np.nan)
            lg = np.log(m[m > 0])
            if len(lg):
                cutoff = np.exp(np.median(lg) - mad_max * mad(lg))
                bias[m < cutoff] = 0
                for k in np.flatnonzero(np.isfinite(m)):
                    if abs(m[k] - cutoff) <= 1e-9 * max(abs(cutoff), 1e-300):
                        ties.add(int(k))
    if blacklist is not None and len(blacklist):
        bias[np.asarray(blacklist, dtype=int)] = 0

    def sweep(A, bias, lo, hi, cw=None):
        scale, var = 1.0, np.nan
        nz = np.array([])
        converged_here = False
        for _ in range(max_iters):
            # restricted to the block being balanced: weights of chromosomes that are already
            # finished may be NaN and 0 * NaN would contaminate the sums
            b = (bias if cw is None else bias * cw)[lo:hi]
            marg = (A[lo:hi, lo:hi] * b[None, :]).sum(axis=1) * b
            nz = marg[marg != 0]
            if not len(nz):
                scale = np.nan
                bias[lo:hi] = np.nan
                var = 0.0
                break
            mm = marg / nz.mean()
            mm[mm == 0] = 1
            bias[lo:hi] /= mm
            var = nz.var()
            if var < tol:
                break
        with np.errstate(all="ignore"):
            scale = nz.mean() if len(nz) else np.nan
        seg = bias[lo:hi]
        seg[seg == 0] = np.nan
        if rescale_marginals:
            bias[lo:hi] = seg / np.sqrt(scale)
        return scale, var

    if cis_only:
        A = filtered(P, n, chrom_of, cis_only=True, ignore_diags=ignore_diags)
        scales, variances = [], []
        for lo, hi in zip(offs[:-1], offs[1:]):
            s, v = sweep(A, bias, lo, hi)
            scales.append(s)
            variances.append(v)
        scale, var = np.array(scales), np.array(variances)
    elif trans_only:
        A = filtered(P, n, chrom_of, trans_only=True, ignore_diags=ignore_diags)
        with np.errstate(all="ignore"):
            cw = 1.0 / np.concatenate([[1 - (hi - lo) / n] * (hi - lo) for lo, hi in zip(offs[:-1], offs[1:])])
        scale, var = sweep(A, bias, 0, n, cw=cw)
    else:
        A = filtered(P, n, chrom_of, ignore_diags=ignore_diags)
        scale, var = sweep(A, bias, 0, n)
    with np.errstate(all="ignore"):
        conv = var < tol
    return {"bias": bias, "scale": scale, "var": var, "converged": conv, "ties": sorted(ties), "offsets": offs}


def selftest():
    # 1) a rank-one matrix balances in one sweep to known weights
    u = np.array([1.0, 2.0, 4.0, 0.5])
    n = len(u)
    P = {(i, j): u[i] * u[j] for i in range(n) for j in range(i, n)}
    P = {k: (v / 2.0 if k[0] == k[1] else v) for k, v in P.items()}     # stored diagonal counts twice
    r = ref_ic(P, n, [0] * n, ignore_diags=0, mad_max=0, min_nnz=0, tol=1e-12, max_iters=50)
    A = marginal_matrix(P, n)
    rows = (A * r["bias"][None, :]).sum(axis=1) * r["bias"]
    assert np.allclose(rows, 1.0, atol=1e-9), rows
    assert np.allclose(r["bias"] * u, (r["bias"] * u)[0]), r["bias"]
    # 2) with every pre-filter off a bin without data keeps a finite weight (documented procedure:
    #    only the filters mask bins); with min_nnz=1 it is masked
    P2 = {(0, 1): 3.0, (0, 2): 1.0, (1, 2): 2.0}
    r = ref_ic(P2, 4, [0] * 4, ignore_diags=0, mad_max=0, min_nnz=0, tol=1e-10)
    assert np.all(np.isfinite(r["bias"]))
    r = ref_ic(P2, 4, [0] * 4, ignore_diags=0, mad_max=0, min_nnz=1, tol=1e-10)
    assert np.isnan(r["bias"][3]) and np.all(np.isfinite(r["bias"][:3]))
    rows = (marginal_matrix(P2, 4) * np.nan_to_num(r["bias"])[None, :]).sum(axis=1) * np.nan_to_num(r["bias"])
    assert np.allclose(rows[:3], 1.0, atol=1e-4)
    # 3) min_nnz drops sparse bins; blacklist masks
    r = ref_ic(P2, 4, [0] * 4, ignore_diags=0, mad_max=0, min_nnz=0, blacklist=[1], tol=1e-10)
    assert np.isnan(r["bias"][1])
    return True


if __name__ == "__main__":
    selftest()
    print("ic selftest ok")
