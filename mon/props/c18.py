"""C18 Renaming chromosomes changes names only."""
from __future__ import annotations

import os

import h5py
import numpy as np

from .. import gen, h5state, model, probes
from ..build import make_cooler
from .c14 import to_int_encoding

RULE = ("generated coolers (enum- and integer-encoded chromosome column, both modes, extra columns, with a weight "
        "column) x chains of 1-4 partial renaming maps (longer/shorter names, swaps a<->b, renaming back, names reused "
        "from earlier steps); before the chain: digest of all non-name data and, per chromosome, extent / bins.fetch / "
        "pixels.fetch / matrix.fetch; after EACH step on the live object AND on a freshly opened Cooler: chromnames, "
        "chroms()[:], bin-table labels and categories in original order equal the renamed list, every recorded query "
        "is unchanged under the mapped name, names no longer in the table raise, raw digests of lengths / bins / pixels "
        "/ indexes unchanged. Non-trivial: >=2 chromosomes and a map that changes >=1 name; distinct = (cooler, chain)")
ASSUMPTIONS = ["maps that would produce duplicate names are not generated"]
MIN_NONTRIVIAL = {"quick": 70, "thorough": 700}
REQUIRED_FEATURES = ["encoding:enum", "encoding:int", "map:swap", "map:longer-name", "map:shorter-name", "map:rename-back",
                     "map:partial", "chain:>1", "check:live-object", "check:reopened",
                     "many-contigs:enum-to-int-fallback", "location:nested-group", "location:nested-group+root-cooler",
                     "map:same-dict-object-applied-to-two-coolers", "cooler-object:constructed-with-h5py-options",
                     "map:unstorable-name-refused", "cooler-object:relative-path-then-chdir", "scool:rename-through-another-cell-than-before",
                     "history:rename-through-a-second-older-object"]


def plan(tier, seed):
    n = 16 if tier == "quick" else 48
    per = 16 if tier == "quick" else 90
    return [{"kind": "rename", "sub": i, "cases": per} for i in range(n)] + \
           [{"kind": "many", "sub": i} for i in range(2 if tier == "quick" else 12)] + \
           [{"kind": "scool", "sub": 700 + i, "cases": 6 if tier == "quick" else 40} for i in range(1 if tier == "quick" else 3)]


def run(ctx, shard):
    probes.activate(ctx)
    if shard["kind"] == "many":
        many_contigs(ctx, shard)
        return
    if shard["kind"] == "scool":
        for i in range(shard["cases"]):
            cid = f"sc:{shard['sub']}:{i}"
            if ctx.want(cid):
                scool_chain(ctx, cid, ctx.rng("scool", shard["sub"], i))
        return
    rng0 = ctx.rng("plan", shard["sub"])
    for i in range(shard["cases"]):
        seedk = int(rng0.integers(2**31))
        rng = ctx.rng("case", shard["sub"], i, seedk)
        cid = f"r:{shard['sub']}:{i}"
        if ctx.want(cid):
            one_chain(ctx, cid, rng, shard["sub"] * 100 + i)


NEW_NAMES = ["1", "2", "X", "chr1_renamed_to_something_much_longer_than_before", "a", "chrM", "contig-000123.1", "Z",
             "chr2", "chrX", "scaf 9", "q"]


def snapshot(clr, names):
    snap = {}
    for nm in names:
        snap[nm] = {
            "extent": tuple(int(x) for x in clr.extent(nm)),
            "bins": clr.bins().fetch(nm)[["start", "end"]].values.tolist(),
            "bins_index": list(clr.bins().fetch(nm).index),
            "pixels": clr.pixels().fetch(nm).values.tolist(),
            "matrix": clr.matrix(balance=False).fetch(nm),
            "matrix2": clr.matrix(balance=False).fetch(nm, names[0]),
        }
        if "weight" in clr.bins().columns:
            snap[nm]["balanced"] = clr.matrix(balance=True).fetch(nm)
    return snap


def raw_nonname_digest(path, group="/"):
    with h5py.File(path, "r") as f:
        return h5state.content_digest(f[group], attrs=True, skip_cols=(("chroms", "name"),))


def one_chain(ctx, cid, rng, idx):
    import cooler

    fam = gen.BT_FAMILIES[idx % len(gen.BT_FAMILIES)]
    bt = gen.gen_bt(rng, fam, max_chroms=5, max_bins=18)
    if len(bt) == 1 and rng.random() < 0.7:
        bt.append(["extra_chrom", [0, 4, 8, 9]])
    n = gen.bt_nbins(bt)
    symm = bool(rng.random() < 0.6)
    P = gen.gen_pixels(rng, n, symm, ["sparse30", "dense", "sparse70"][int(rng.integers(3))])
    w = rng.uniform(0.5, 2.0, size=n)
    w[rng.random(n) < 0.15] = np.nan
    path = ctx.path()
    group = ["/", "/", "/resolutions/1000", "/sub/grp"][idx % 4]
    root_too = group != "/" and idx % 8 >= 4
    if root_too:
        # the file's root is a cooler as well: it must not be touched by renaming the nested one
        make_cooler(path, [["rootA", [0, 5, 10]], ["rootB", [0, 5]]], {(0, 1): 3, (2, 2): 1})
    uri = path if group == "/" else path + "::" + group
    make_cooler(uri, bt, P, symm=symm, bins_extra={"weight": w}, mode="a")
    enc = "int" if idx % 2 else "enum"
    if enc == "int":
        to_int_encoding(path, group)
    names = [c_ for c_, _ in bt]
    lengths = [e[-1] for _, e in bt]
    steps = int(rng.integers(1, 5))
    chain = []
    cwd0 = os.getcwd()
    path0 = path
    with ctx.case(cid, {"bt": bt, "symm": symm, "encoding": enc, "chain": chain}) as c:
        c.feature(f"encoding:{enc}")
        c.feature("location:root" if group == "/" else "location:nested-group" + ("+root-cooler" if root_too else ""))
        # the object may carry h5py options for its own (read) accesses; renaming opens the file for writing itself
        okw = [{}, {}, {"mode": "r"}, {"mode": "r+"}, {"driver": "core", "backing_store": False}][int(rng.integers(5))]
        clr = cooler.Cooler(uri, **okw)
        if okw:
            c.feature("cooler-object:constructed-with-h5py-options")
        hfile = None
        if not okw and idx % 5 != 2 and rng.random() < 0.4:
            # the object is built on an OPEN writable h5py handle (File or Group) instead of a path
            hfile = h5py.File(path, "r+")
            clr = cooler.Cooler(hfile[group] if group != "/" or rng.random() < 0.5 else hfile)
            c.feature("cooler-object:built-on-open-writable-handle")
        obj2 = cooler.Cooler(uri)                   # a second object of the same cooler, opened before any rename
        relcase = bool(idx % 5 == 2 and not okw)
        if relcase:
            # the object is built from a RELATIVE path; the working directory changes before the rename to a directory
            # that holds a same-named file: every access of the object then means THAT file, consistently
            d1, d2 = ctx.newdir(), ctx.newdir()
            import shutil
            shutil.copy(path, os.path.join(d1, "same.cool"))
            shutil.copy(path, os.path.join(d2, "same.cool"))
            os.chdir(d1)
            clr = cooler.Cooler("same.cool" + ("::" + group if group != "/" else ""))
            os.chdir(d2)
            path = os.path.join(d2, "same.cool")          # what the object's name means from now on
            uri = path if group == "/" else path + "::" + group
            obj2 = cooler.Cooler(uri)
            c.feature("cooler-object:relative-path-then-chdir")
        dig0 = raw_nonname_digest(path, group)
        root_dig0 = h5state.digest_uri(path, "/") if root_too else None
        snap0 = snapshot(clr, names)
        cur = list(names)
        orig_of = {nm: nm for nm in names}      # current name -> original name
        history = [list(cur)]
        for s in range(steps):
            if rng.random() < 0.3:
                # a map the format cannot store (names are ASCII): if it is refused, nothing may have changed
                victim = cur[int(rng.integers(len(cur)))]
                badmap = {victim: ["chr\u03bc", "\u67d3\u8272\u4f53", "chrom\u00e9"][int(rng.integers(3))]}
                if len(cur) > 1 and rng.random() < 0.5:
                    other = [x for x in cur if x != victim][0]
                    badmap = {other: other + "_ok", **badmap}
                before = h5state.digest_uri(path, group)
                try:
                    cooler.rename_chroms(clr, badmap)
                    refused = False
                except (UnicodeError, ValueError, TypeError):
                    refused = True
                if refused:
                    c.feature("map:unstorable-name-refused")
                    try:
                        after = h5state.digest_uri(path, group)
                        names_now = cooler.Cooler(uri).chromnames
                    except Exception as e:  # noqa
                        after, names_now = f"unreadable: {type(e).__name__}: {e}", None
                    if not c.check(after == before and names_now == cur and clr.chromnames == cur,
                                   "refused-rename-changed-the-file",
                                   f"rename_chroms({badmap}) was refused, but the collection is not what it was before the "
                                   f"call (names now {names_now}, expected {cur}; {after if isinstance(after, str) and after.startswith('unreadable') else 'content digest differs' if after != before else ''})"):
                        break
                else:
                    c.feature("map:unstorable-name-accepted")
                    cooler.rename_chroms(clr, {v: k_ for k_, v in badmap.items()})
            kind = ["swap", "longer", "shorter", "back", "partial", "reuse"][int(rng.integers(6))]
            mp = {}
            if kind == "swap" and len(cur) >= 2:
                a, b = (cur[int(x)] for x in rng.permutation(len(cur))[:2])
                mp = {a: b, b: a}
                c.feature("map:swap")
            elif kind == "back" and len(history) > 1:
                prev = history[-2]
                mp = {cur[i]: prev[i] for i in range(len(cur)) if cur[i] != prev[i]}
                c.feature("map:rename-back")
            else:
                k = int(rng.integers(1, len(cur) + 1))
                chosen = [cur[int(x)] for x in rng.permutation(len(cur))[:k]]
                pool = [x for x in NEW_NAMES if x not in cur]
                if kind == "reuse":
                    pool = [x for h in history for x in h if x not in cur] + pool
                for nm in chosen:
                    if not pool:
                        break
                    new = pool.pop(0) if kind in ("reuse",) else pool.pop(int(rng.integers(len(pool))))
                    if kind == "longer":
                        new = nm + "_" + new + "_long" * 3
                    elif kind == "shorter":
                        new = new[:2] if new[:2] not in cur and new[:2] not in mp.values() else new
                    if new in cur or new in mp.values():
                        continue
                    mp[nm] = new
                c.feature({"longer": "map:longer-name", "shorter": "map:shorter-name"}.get(kind, "map:other"))
                if k < len(cur):
                    c.feature("map:partial")
            # final name list must be duplicate-free
            new_cur = [mp.get(x, x) for x in cur]
            if len(set(new_cur)) != len(new_cur) or not mp:
                continue
            chain.append(dict(mp))
            if len(mp) >= 2 and rng.random() < 0.35:
                # one alias map (the same dict object) applied to several coolers in turn; the first one
                # has only some of the chromosomes the map names
                first = list(mp)[0]
                side = ctx.path()
                make_cooler(side, [[first, [0, 5, 10]]], {(0, 1): 2})
                cooler.rename_chroms(cooler.Cooler(side), mp)
                c.check(cooler.Cooler(side).chromnames == [mp[first]], "chromnames-wrong:side-cooler",
                        f"side cooler with chromosome {first!r} after rename_chroms({mp}): {cooler.Cooler(side).chromnames}")
                os.remove(side)
                c.feature("map:same-dict-object-applied-to-two-coolers")
            via_other = bool(not relcase and hfile is None and len(chain) >= 2 and rng.random() < 0.4)
            old_sel = (clr.matrix(balance=False), clr.bins(), clr.pixels()) if rng.random() < 0.5 else None
            if via_other:
                # this step goes through the OTHER object (opened before the earlier renames, never refreshed):
                # the map is partial - chromosomes it does not mention keep the names they have NOW in the file
                cooler.rename_chroms(obj2, mp)
                clr = cooler.Cooler(uri, **okw)
                c.feature("history:rename-through-a-second-older-object")
            else:
                cooler.rename_chroms(clr, mp)
            orig_of = {mp.get(k_, k_): v for k_, v in orig_of.items()}
            gone = [x for x in cur if x not in new_cur]
            cur = new_cur
            history.append(list(cur))
            if len(chain) > 1:
                c.feature("chain:>1")
            if old_sel is not None and not via_other:
                # selectors obtained from this object BEFORE the rename are name-based lookups on the same object too
                c.feature("history:selector-made-before-the-rename")
                for nm in cur:
                    o = snap0[orig_of[nm]]
                    try:
                        okq = (np.array_equal(old_sel[0].fetch(nm), o["matrix"])
                               and old_sel[1].fetch(nm)[["start", "end"]].values.tolist() == o["bins"]
                               and old_sel[2].fetch(nm).values.tolist() == o["pixels"])
                    except (ValueError, KeyError) as e:
                        okq = False
                    if not c.check(okq, "query-by-new-name-differs:selector-made-before-the-rename",
                                   f"a matrix/bins/pixels selector obtained from the object before rename_chroms({chain[-1]}) "
                                   f"does not answer region {nm!r} (was {orig_of[nm]!r}) as the old name was answered"):
                        break
            for label, obj in (("live-object", clr), ("reopened", cooler.Cooler(uri))):
                c.feature(f"check:{label}")
                ok = c.check(obj.chromnames == cur, f"chromnames-wrong:{label}",
                             f"[{label}] chromnames {obj.chromnames} != {cur} after {chain}")
                ct = obj.chroms()[:]
                c.check(ct["name"].astype(str).tolist() == cur and ct["length"].tolist() == lengths,
                        f"chrom-table-wrong:{label}", f"[{label}] chroms()[:] names/lengths wrong after {chain}")
                c.check(list(obj.chromsizes.index) == cur and [int(x) for x in obj.chromsizes.values] == lengths,
                        f"chromsizes-wrong:{label}", f"[{label}] chromsizes wrong after {chain}")
                bb = obj.bins()[:]
                want_labels = [c2 for c2, e in zip(cur, [e for _, e in bt]) for _ in range(len(e) - 1)]
                c.check(bb["chrom"].astype(str).tolist() == want_labels, f"bin-labels-wrong:{label}:{enc}",
                        f"[{label}] bin table chromosome labels wrong after {chain}",
                        lambda: {"got": bb["chrom"].astype(str).tolist()[:20], "want": want_labels[:20]})
                cats = list(bb["chrom"].cat.categories) if hasattr(bb["chrom"], "cat") else None
                c.check(cats == cur, f"bin-categories-wrong:{label}:{enc}",
                        f"[{label}] bin table categories {cats} != {cur} (original order)")
                if not ok:
                    break
                snap = snapshot(obj, cur)
                for nm in cur:
                    o = snap0[orig_of[nm]]
                    g = snap[nm]
                    same = (g["extent"] == o["extent"] and g["bins"] == o["bins"] and g["bins_index"] == o["bins_index"]
                            and g["pixels"] == o["pixels"] and np.array_equal(g["matrix"], o["matrix"])
                            and np.array_equal(g["balanced"], o["balanced"], equal_nan=True))
                    want2 = snap0[orig_of[nm]]["matrix2"]
                    same = same and np.array_equal(g["matrix2"], want2)
                    c.check(same, f"query-by-new-name-differs:{label}",
                            f"[{label}] region {nm!r} (was {orig_of[nm]!r}) does not return what the old name returned")
                for nm in gone:
                    raised = False
                    try:
                        obj.extent(nm)
                    except (ValueError, KeyError):
                        raised = True
                    c.check(raised, f"old-name-still-resolves:{label}", f"[{label}] old name {nm!r} still resolves after {chain}")
            c.check(raw_nonname_digest(path, group) == dig0, "non-name-data-changed",
                    f"lengths / bins / pixels / indexes / attributes changed by renaming {chain}")
            if root_too:
                c.check(h5state.digest_uri(path, "/") == root_dig0, "other-collection-changed-by-rename",
                        "renaming the chromosomes of a nested collection changed the collection at the file's root")
            bad = h5state.validate_uri(path, group)
            for key, msg in bad:
                c.fail(f"invalid-after-rename:{key}", msg)
        if len(names) >= 2 and chain:
            c.nontrivial(repr(bt), repr(chain), enc, symm)
        ctx.sample({"chromosomes": names, "chain": chain, "encoding": enc}, limit=5)
    os.chdir(cwd0)
    if hfile is not None:
        hfile.close()
    os.remove(path0)


def many_contigs(ctx, shard):
    """Thousands of contigs: renaming to long names overflows the HDF5 enum header and forces
    the enum -> integer fallback inside the rename."""
    import cooler

    rng = ctx.rng("many", shard["sub"])
    cid = f"many:{shard['sub']}"
    if not ctx.want(cid):
        return
    nct = int([3000, 2500, 4000][shard["sub"] % 3])
    names = [f"s{i:04d}" for i in range(nct)]
    bt = [[nm, [0, 7] if i % 3 else [0, 4, 7]] for i, nm in enumerate(names)]
    n = gen.bt_nbins(bt)
    P = {}
    for _ in range(400):
        a, b = sorted((int(rng.integers(n)), int(rng.integers(n))))
        P[(a, b)] = int(rng.integers(1, 9))
    path = ctx.path()
    make_cooler(path, bt, P)
    with ctx.case(cid, {"contigs": nct, "note": "enum header near its limit"}) as c:
        with h5py.File(path, "r") as f:
            was_enum = h5py.check_dtype(enum=f["bins/chrom"].dtype) is not None
        c.feature("many-contigs:starts-as-enum" if was_enum else "many-contigs:starts-as-int")
        clr = cooler.Cooler(path)
        dig0 = raw_nonname_digest_many(path)
        k = int(rng.integers(nct // 2, nct))
        chosen = [names[int(x)] for x in rng.permutation(nct)[:k]]
        mp = {nm: f"{nm}_renamed_to_a_considerably_longer_scaffold_name_{i:05d}" for i, nm in enumerate(chosen)}
        cooler.rename_chroms(clr, mp)
        cur = [mp.get(x, x) for x in names]
        with h5py.File(path, "r") as f:
            now_enum = h5py.check_dtype(enum=f["bins/chrom"].dtype) is not None
        if was_enum and not now_enum:
            c.feature("many-contigs:enum-to-int-fallback")
        for label, obj in (("live-object", clr), ("reopened", cooler.Cooler(path))):
            c.check(obj.chromnames == cur, f"chromnames-wrong:{label}", f"[{label}] chromnames wrong after renaming {k} of {nct}")
            bb = obj.bins()[:]
            want_labels = [c2 for c2, (_, e) in zip(cur, bt) for _ in range(len(e) - 1)]
            c.check(bb["chrom"].astype(str).tolist() == want_labels, f"bin-labels-wrong:{label}:many-contigs",
                    f"[{label}] bin table chromosome labels wrong after renaming {k} of {nct} contigs "
                    f"(enum before: {was_enum}, after: {now_enum})",
                    lambda: {"got": bb["chrom"].astype(str).tolist()[:6], "want": want_labels[:6]})
            for nm_old in [names[int(x)] for x in rng.permutation(nct)[:25]]:
                nm = mp.get(nm_old, nm_old)
                i = names.index(nm_old)
                fb = obj.bins().fetch(nm)
                c.check(fb["chrom"].astype(str).tolist() == [nm] * (len(bt[i][1]) - 1), f"fetch-by-new-name-differs:{label}",
                        f"[{label}] bins().fetch({nm!r}) rows are not labelled with the new name")
        c.check(raw_nonname_digest_many(path) == dig0, "non-name-data-changed", "lengths/bins/pixels/indexes changed")
        for key, msg in h5state.validate_uri(path):
            c.fail(f"invalid-after-rename:{key}", msg)
        c.nontrivial("many", nct, k)
        ctx.sample({"many_contigs": nct, "renamed": k, "enum_before": was_enum, "enum_after": now_enum}, limit=6)
    os.remove(path)


def raw_nonname_digest_many(path):
    # bins/chrom may legitimately switch from enum to plain integers: compare codes, not dtype
    with h5py.File(path, "r") as f:
        return h5state.content_digest(f["/"], attrs=True, skip_cols=(("chroms", "name"),))


def scool_chain(ctx, cid, rng):
    """Cells of a single-cell file are coolers too: a chain of renames that goes through one cell, then through
    ANOTHER cell (using the names that cell reports at that moment), ...  Judged after every step for the cell the
    rename went through - on the live object and after reopening: names, bin-table labels, name-based lookups.
    (All cells share one chromosome table, so names renamed through one cell show in its siblings; what a sibling's
    own bin-table labels say before it is itself renamed through is not judged here - observation O11.)"""
    import cooler

    bt = gen.gen_bt(rng, None, max_chroms=4, max_bins=9)
    while len(bt) < 2:
        bt = gen.gen_bt(rng, None, max_chroms=4, max_bins=9)
    n = gen.bt_nbins(bt)
    cells = {f"cell{j}": gen.pixels_frame(gen.gen_pixels(rng, n, True, "sparse70") or {(0, 0): 1 + j}, None)
             for j in range(int(rng.integers(2, 4)))}
    path = ctx.path(suffix=".scool")
    cooler.create_scool(path, gen.bt_frame(bt), cells)
    cur = [nm for nm, _ in bt]
    per_bin = [ci for ci, (_, e) in enumerate(bt) for _ in range(len(e) - 1)]
    with ctx.case(cid, {"bt": bt, "cells": list(cells)}) as c:
        steps = []
        last = None
        for step in range(int(rng.integers(2, 6))):
            others = [x for x in cells if x != last] or list(cells)
            cell = others[int(rng.integers(len(others)))]
            last = cell
            uri = f"{path}::/cells/{cell}"
            clr = cooler.Cooler(uri)
            if not c.check(clr.chromnames == cur, "scool:names-before-step", f"cell {cell} reports {clr.chromnames}, the file's "
                           f"chromosome table was renamed to {cur}", {"steps": steps}):
                break
            before = snapshot(clr, cur)
            k = int(rng.integers(1, len(cur) + 1))
            chosen = [cur[int(x)] for x in rng.permutation(len(cur))[:k]]
            if k >= 2 and rng.random() < 0.4:
                mp = {chosen[0]: chosen[1], chosen[1]: chosen[0]}
            else:
                pool = [x for x in NEW_NAMES if x not in cur]
                mp = {nm: pool.pop(int(rng.integers(len(pool)))) for nm in chosen if pool}
            new = [mp.get(x, x) for x in cur]
            if len(set(new)) != len(new) or not mp:
                continue
            steps.append({"through": cell, "map": dict(mp)})
            cooler.rename_chroms(clr, mp)
            c.feature("scool:rename-through-cell", "scool:rename-through-another-cell-than-before" if len(steps) > 1 else "scool:first")
            for tag, obj in (("live-object", clr), ("reopened", cooler.Cooler(uri))):
                ok = c.check(list(obj.chromnames) == new, f"scool:chromnames-wrong:{tag}",
                             f"[{tag}] cell {cell}: chromnames {obj.chromnames} != {new}", {"steps": steps})
                lab = [str(x) for x in obj.bins()[:]["chrom"].tolist()]
                ok = c.check(lab == [new[ci] for ci in per_bin], f"scool:bin-labels-wrong:{tag}",
                             f"[{tag}] cell {cell}: bin-table chromosome labels are {sorted(set(lab))}, names are {new}",
                             {"steps": steps}) and ok
                if not ok:
                    break
                after = snapshot(obj, new)
                same = all(after[new[i]]["extent"] == before[cur[i]]["extent"] and after[new[i]]["bins"] == before[cur[i]]["bins"]
                           and after[new[i]]["pixels"] == before[cur[i]]["pixels"]
                           and np.array_equal(after[new[i]]["matrix"], before[cur[i]]["matrix"]) for i in range(len(cur)))
                c.check(same, f"scool:lookup-by-new-name-differs:{tag}", f"[{tag}] cell {cell}: a region addressed by a new name "
                        "does not return what the old name returned", {"steps": steps})
                jn = obj.pixels(join=True)[:]
                if len(jn):
                    ids1 = obj.pixels()[:]["bin1_id"].to_numpy()
                    c.check([str(x) for x in jn["chrom1"].tolist()] == [new[per_bin[int(i)]] for i in ids1],
                            f"scool:joined-names-wrong:{tag}", f"[{tag}] cell {cell}: pixels(join=True) carries other names than {new}")
            cur = new
            if c.failed:
                break
        if len(steps) >= 2:
            c.nontrivial("scool", repr(bt), repr(steps))
        ctx.sample({"scool_chain": steps[:3], "cells": len(cells)}, limit=3)
    os.remove(path)
