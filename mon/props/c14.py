"""C14 Table selectors and bin annotation return the rows and coordinates asked for."""
from __future__ import annotations

import os

import h5py
import numpy as np
import pandas as pd

from .. import gen, probes
from ..build import make_cooler

RULE = ("generated coolers (enum- and integer-encoded chromosome column, extra bin/pixel columns); selectors chroms(), "
        "bins(), pixels() x row ranges (positive, negative within [-n,-1], open, empty, scalar, full) x column subsets "
        "(single name => Series, list => DataFrame) compared with the tables read by raw h5py; annotate(pixels, bins, "
        "replace) over pixel subsets in storage order / shuffled / with non-default index / one id column only / sizes "
        "below and above the bin count / empty, against bins given whole, as selector and as EVERY contiguous part "
        "containing the needed bins. Non-trivial: non-empty range or >=1 pixel; distinct = (cooler, selector, range, "
        "columns) or (cooler, pixel subset, bin-table form)")
ASSUMPTIONS = ["raw h5py reads of the stored tables are the oracle", "bounds outside [-n, n] are outside the domain"]
MIN_NONTRIVIAL = {"quick": 3000, "thorough": 30000}
REQUIRED_FEATURES = ["range:out-of-range", "range:scalar-out-of-range:refused", "encoding:enum", "encoding:int", "selector:chroms", "selector:bins", "selector:pixels", "cols:single",
                     "cols:list", "range:negative", "range:scalar", "range:empty", "annotate:bins-dataframe",
                     "annotate:bins-selector", "annotate:bins-partial", "annotate:strategy:minmax",
                     "annotate:strategy:whole", "annotate:shuffled", "annotate:custom-index", "annotate:only-bin1",
                     "annotate:only-bin2", "annotate:empty-pixels", "pixels-join"]


def plan(tier, seed):
    n = 16 if tier == "quick" else 48
    per = 5 if tier == "quick" else 40
    return [{"kind": "sel", "sub": i, "cases": per} for i in range(n)] + \
           [{"kind": "many", "sub": 900 + i, "cases": 1} for i in range(1 if tier == "quick" else 4)] + \
           [{"kind": "narrow", "sub": 950 + i, "cases": 4 if tier == "quick" else 24} for i in range(1 if tier == "quick" else 3)]


def run(ctx, shard):
    probes.activate(ctx)
    if shard["kind"] == "many":
        many_contigs(ctx, shard)
        return
    if shard["kind"] == "narrow":
        narrow_ids(ctx, shard)
        return
    rng0 = ctx.rng("plan", shard["sub"])
    for i in range(shard["cases"]):
        seedk = int(rng0.integers(2**31))
        rng = ctx.rng("case", shard["sub"], i, seedk)
        cid = f"s:{shard['sub']}:{i}"
        if ctx.want(cid):
            one_cooler(ctx, cid, rng, shard["sub"] * 10 + i)


def to_int_encoding(path, group="/"):
    """Rewrite bins/chrom as plain integers (as files from other tools / >enum-limit contig counts look)."""
    with h5py.File(path, "r+") as f0:
        f = f0[group]
        ids = f["bins/chrom"][:].astype(np.int32)
        del f["bins/chrom"]
        ds = f["bins"].create_dataset("chrom", data=ids, dtype=np.int32)
        ds.attrs["enum_path"] = "/chroms/name"


def raw_tables(path, group="/"):
    with h5py.File(path, "r") as f0:
        f = f0[group]
        names = [x.decode() for x in f["chroms/name"][:]]
        t = {"chroms": {"name": np.array(names, dtype=object), "length": f["chroms/length"][:]},
             "bins": {k: f["bins"][k][:] for k in f["bins"]},
             "pixels": {k: f["pixels"][k][:] for k in f["pixels"]}}
        t["bins"]["chrom"] = np.array([names[i] for i in t["bins"]["chrom"]], dtype=object)
    return t


def ranges(rng, n, count):
    out = [(slice(None), 0, n), (slice(0, n), 0, n), (slice(0, 0), 0, 0)]
    for _ in range(count):
        a = int(rng.integers(0, n + 1))
        b = int(rng.integers(a, n + 1))
        spell = int(rng.integers(5))
        sa = None if (a == 0 and spell == 1) else (a - n if (0 <= a < n and spell == 2) else a)
        sb = None if (b == n and spell in (1, 3)) else (b - n if (0 <= b < n and spell == 2) else b)
        kind = "negative" if ((isinstance(sa, int) and sa < 0) or (isinstance(sb, int) and sb < 0)) else "plain"
        out.append((slice(sa, sb), a, b, kind))
        if a < n and spell == 4:
            out.append((a, a, a + 1, "scalar"))
            out.append((a - n, a, a + 1, "scalar"))
    # bounds beyond the table on either side denote what they denote for any Python sequence (F34)
    for _ in range(max(2, count // 6)):
        sa = int(rng.integers(-2 * n - 3, 2 * n + 4)) if rng.random() < 0.8 else None
        sb = int(rng.integers(-2 * n - 3, 2 * n + 4)) if rng.random() < 0.8 else None
        if (sa is not None and not -n <= sa <= n) or (sb is not None and not -n <= sb <= n):
            a, b, _ = slice(sa, sb).indices(n)
            beyond = (sa is not None and sa > n) or (sb is not None and sb > n)
            out.append((slice(sa, sb), a, max(a, b), "beyond-end" if beyond else "out-of-range"))
    return [r if len(r) == 4 else r + ("plain",) for r in out]


def col_eq(got, want):
    got = np.asarray(got.astype(object) if hasattr(got, "astype") else got, dtype=object)
    want = np.asarray(want, dtype=object)
    if len(got) != len(want):
        return False
    for x, y in zip(got.tolist(), want.tolist()):
        if isinstance(x, float) and isinstance(y, float) and np.isnan(x) and np.isnan(y):
            continue
        if x != y:
            return False
    return True


def check_selector(c, name, sel, table, default_cols, rng, nranges):
    n = len(next(iter(table.values())))
    allcols = list(table)
    colsets = [None] + [[x] for x in allcols[:2]] + [allcols[::-1]] + [x for x in allcols]
    dupable = [x for x in allcols if x != "chrom"]
    if len(dupable) >= 2:
        colsets.append([dupable[0], dupable[1], dupable[0]])          # a column requested twice comes back twice
    for (key, a, b, kind) in ranges(rng, n, nranges):
        cs = colsets[int(rng.integers(len(colsets)))]
        s = sel if cs is None else sel[cs]
        want_idx = list(range(a, b))
        if kind == "beyond-end":
            # a bound beyond the end of the table: sequences clip it.  One mechanism, one key (known finding F36:
            # the bound is passed on unclipped; pinned by tests/test_core.py::test_selector1d "FIXME - questionable")
            c.feature("range:beyond-end")
            c.ctx.oracle_evals += 1
            try:
                got = s[key]
                okb = list(got.index) == want_idx
            except Exception:  # noqa
                okb = False
            if not okb:
                c.fail("selector-bound-beyond-end-not-clipped", f"{name}()[{key!r}] on a table of {n} rows is not rows {a}..{b - 1}",
                       {"n": n, "key": repr(key)})
            continue
        got = s[key]
        c.feature(f"selector:{name}", f"range:{kind if b > a else 'empty'}",
                  "cols:default" if cs is None else ("cols:single" if isinstance(cs, str) else "cols:list"))
        if isinstance(cs, str):
            ok = isinstance(got, pd.Series) and list(got.index) == want_idx and col_eq(got, table[cs][a:b])
            cols = [cs]
        else:
            cols = default_cols if cs is None else cs
            ok = isinstance(got, pd.DataFrame) and list(got.index) == want_idx and list(got.columns) == cols
            if ok:
                for k_, col in enumerate(cols):
                    ok = ok and col_eq(got.iloc[:, k_], table[col][a:b])
            if len(set(cols)) < len(cols):
                c.feature("cols:list-with-repeated-name")
        c.ctx.oracle_evals += 1
        if not ok:
            enc = c.desc.get("encoding")
            c.fail(f"selector-wrong-rows:{name}:{'series' if isinstance(cs, str) else 'frame'}:{enc}",
                   f"{name}()[{cs!r}][{key!r}] is not stored rows {a}..{b - 1} labelled {a}..{b - 1}",
                   {"got_index": list(got.index)[:20], "got": got.head(10) if hasattr(got, 'head') else got, "want_rows": [a, b]})
            return False
        if b > a:
            c.nontrivial(c.cid, name, a, b, repr(cs), repr(key))
    # a scalar index outside the table selects no row: it is refused, never answered with some other row
    for bad in (n, -n - 1, n + int(rng.integers(1, 50)), -n - int(rng.integers(2, 50))):
        c.ctx.oracle_evals += 1
        try:
            got = sel[bad]
        except (IndexError, ValueError, KeyError):
            c.feature("range:scalar-out-of-range:refused")
            continue
        c.fail(f"selector-wrong-rows:{name}:scalar-out-of-range-answered",
               f"{name}()[{bad}] on a table of {n} rows was answered with rows {list(got.index)[:5]} instead of refused",
               {"n": n, "got_index": list(got.index)[:10]})
        return False
    # strided / reversed row ranges: either refused, or exactly the rows Python slicing denotes, in that order
    for _ in range(3):
        a = int(rng.integers(-n - 1, n + 2)); b = int(rng.integers(-n - 1, n + 2))
        step = int([-1, -1, -2, 0, 2, -3][int(rng.integers(6))])
        key = slice(None if rng.random() < 0.3 else a, None if rng.random() < 0.3 else b, step)
        c.ctx.oracle_evals += 1
        try:
            got = sel[key]
        except (IndexError, ValueError, TypeError, NotImplementedError):
            c.feature("range:strided:refused")
            continue
        try:
            want_idx = list(range(n)[key])
        except ValueError:
            want_idx = None
        c.feature("range:strided:answered")
        if want_idx is None or list(got.index) != want_idx or \
                not all(col_eq(got[col], np.asarray(table[col], dtype=object)[want_idx]) for col in default_cols):
            c.fail(f"selector-wrong-rows:{name}:strided-slice-answered-wrongly",
                   f"{name}()[{key!r}] was neither refused nor answered with rows {None if want_idx is None else want_idx[:10]}: "
                   f"got rows {list(got.index)[:10]}", {"got_index": list(got.index)[:30], "n": n})
            return False
    return True


def ref_annotate(pix, T, extras, replace):
    """expected annotate output as dict of columns."""
    out = {}
    for side in ("1", "2"):
        col = f"bin{side}_id"
        if col in pix.columns:
            ids = pix[col].to_numpy().astype(np.int64)
            for bc in ["chrom", "start", "end"] + extras:
                out[bc + side] = T["bins"][bc][ids] if len(ids) else np.array([], dtype=T["bins"][bc].dtype)
    for col in pix.columns:
        if replace and col in ("bin1_id", "bin2_id"):
            continue
        out[col] = pix[col].to_numpy()
    return out


def check_annotate(c, cooler, clr, T, rng, nbins, nreps):
    extras = [k for k in T["bins"] if k not in ("chrom", "start", "end")]
    P = pd.DataFrame({k: T["pixels"][k] for k in ["bin1_id", "bin2_id"] + [k for k in T["pixels"] if k not in ("bin1_id", "bin2_id")]})
    bins_df = clr.bins()[:]
    for rep in range(nreps):
        mode = rep % 8
        m = len(P)
        if mode == 0:
            pix = P.iloc[0:0]
            c.feature("annotate:empty-pixels")
        elif mode == 1 and m:
            a = int(rng.integers(0, m)); b = int(rng.integers(a, m + 1))
            pix = P.iloc[a:b]
        elif mode == 2 and m:
            pix = P.iloc[rng.permutation(m)[: int(rng.integers(1, m + 1))]]
            c.feature("annotate:shuffled")
        elif mode == 3 and m:
            pix = P.iloc[rng.permutation(m)[: max(1, min(m, nbins // 3))]].copy()
            pix.index = [f"r{i}" for i in range(len(pix))]
            c.feature("annotate:custom-index")
        elif mode == 4 and m:
            pix = P.iloc[: int(rng.integers(1, m + 1))][["bin1_id", "count"]]
            c.feature("annotate:only-bin1")
        elif mode == 5 and m:
            pix = P.iloc[rng.permutation(m)[: int(rng.integers(1, m + 1))]][["bin2_id", "count"]]
            c.feature("annotate:only-bin2")
        elif mode == 6 and m:
            reps_ = int(np.ceil((nbins + 3) / m))
            pix = pd.concat([P] * reps_, ignore_index=True)      # more pixels than bins
        else:
            pix = P
        replace = bool(rng.integers(2))
        ids = np.concatenate([pix[cn].to_numpy() for cn in ("bin1_id", "bin2_id") if cn in pix.columns]).astype(np.int64)
        lo, hi = (int(ids.min()), int(ids.max())) if len(ids) else (None, None)
        forms = [("bins-dataframe", bins_df), ("bins-selector", clr.bins())]
        if extras:
            forms.append(("bins-selector", clr.bins()[["chrom", "start", "end"] + extras]))
        # every contiguous part of the table that contains the needed bins (sampled when large)
        if lo is not None:
            parts = [(a, b) for a in range(0, lo + 1) for b in range(hi + 1, nbins + 1)]
        else:
            parts = [(a, b) for a in range(0, nbins + 1) for b in range(a + 1, nbins + 1)]
        if len(parts) > 12:
            parts = [parts[int(x)] for x in rng.permutation(len(parts))[:10]] + [parts[0], parts[-1]]
        for a, b in parts:
            forms.append((f"bins-partial:{a > 0}", bins_df.iloc[a:b]))
        arg = pix.copy()            # ONE frame reused for every call of this round, as a caller would
        for fname, bins in forms:
            tag = fname.split(":")[0]
            c.feature(f"annotate:{tag}")
            nb = len(bins)
            if len(pix):
                c.feature("annotate:strategy:minmax" if nb > len(pix) else "annotate:strategy:whole")
            c.ctx.oracle_evals += 1
            try:
                got = cooler.annotate(arg, bins, replace=replace)
            except Exception as e:  # noqa
                key = "annotate-raises:" + ("empty-pixels" if len(pix) == 0 else "nonempty") + ":" + \
                      ("partial-bins-without-bin0" if fname == "bins-partial:True" else tag)
                c.fail(key, f"annotate({len(pix)} pixels, {fname} of {nb} rows) raised {type(e).__name__}: {e}",
                       {"pixels": pix.head(10), "bins_index": [int(bins.index[0]), int(bins.index[-1])] if hasattr(bins, "index") and nb else None})
                continue
            want = ref_annotate(pix, T, [x for x in extras if x in (bins.columns if hasattr(bins, "columns") else extras)], replace)
            ok = list(got.index) == list(pix.index) and list(got.columns) == list(want)
            if ok:
                for col in want:
                    ok = ok and col_eq(got[col], want[col])
            if not ok:
                if list(arg.columns) != list(pix.columns) or len(arg) != len(pix):
                    c.fail("annotate-wrong:same-pixel-frame-annotated-again", f"annotate(..., replace={replace}) on a frame that "
                           f"an earlier annotate call had received: columns of the caller's frame are now {list(arg.columns)}",
                           {"got": got.head(8), "want_cols": list(want)})
                    return False
                c.fail(f"annotate-wrong:{tag}:{'ordered' if mode in (1, 4, 6, 7) else 'unordered-or-special'}",
                       f"annotate({len(pix)} pixels, {fname}, replace={replace}) does not attach each pixel's own bins "
                       f"/ keep order and index", {"got": got.head(8), "want_cols": list(want), "pixels": pix.head(8)})
                return False
            if len(pix):
                c.nontrivial(c.cid, "annotate", mode, fname, rep)
    return True


def one_cooler(ctx, cid, rng, idx):
    import cooler

    fam = gen.BT_FAMILIES[idx % len(gen.BT_FAMILIES)]
    bt = gen.gen_bt(rng, fam, max_chroms=5, max_bins=int([6, 14, 30][idx % 3]))
    n = gen.bt_nbins(bt)
    symm = bool(rng.random() < 0.6)
    P = gen.gen_pixels(rng, n, symm, ["sparse30", "dense", "sparse05", "sparse70", "emptyrows"][int(rng.integers(5))])
    E = {k: float(int(rng.integers(-40, 40))) / 4 for k in P}
    # extra bin columns; their names may contain a standard column's name as a substring (F29)
    xn = [("gc", "cov"), ("chrom_gc", "subchrom_rank"), ("start0", "chromEnd")][int(rng.integers(3))]
    bex = {xn[0]: np.round(rng.random(n), 4), xn[1]: rng.integers(0, max(1, len(bt)), size=n)
           if xn[1] != "cov" else rng.integers(0, 1000, size=n)} if rng.random() < 0.6 else None
    path = ctx.path()
    group = "/" if idx % 3 else "/deep/er/grp"
    uri = path + ("::" + group if group != "/" else "")
    idt = [None, np.uint32, np.int32, np.uint16][idx % 4]        # bin id columns may be narrower / unsigned
    make_cooler(uri, bt, P, symm=symm, extra={"score": E}, bins_extra=bex,
                dtypes={"bin1_id": idt, "bin2_id": idt} if idt else None)
    enc = "int" if idx % 2 else "enum"
    if enc == "int":
        to_int_encoding(path, group)
    T = raw_tables(path, group)
    with ctx.case(cid, {"bt": bt, "symm": symm, "encoding": enc, "nnz": len(P), "bins_extra": bool(bex)}) as c:
        c.feature(f"encoding:{enc}", "location:root" if group == "/" else "location:nested-group",
                  f"bin-id-dtype:{np.dtype(idt).name if idt else 'int64'}")
        clr = cooler.Cooler(uri)
        nr = 60
        check_selector(c, "chroms", clr.chroms(), T["chroms"], ["name", "length"], rng, 25)
        bcols = ["chrom", "start", "end"] + [k for k in T["bins"] if k not in ("chrom", "start", "end")]
        check_selector(c, "bins", clr.bins(), {k: T["bins"][k] for k in bcols}, bcols, rng, nr)
        pcols = ["bin1_id", "bin2_id"] + [k for k in T["pixels"] if k not in ("bin1_id", "bin2_id")]
        check_selector(c, "pixels", clr.pixels(), {k: T["pixels"][k] for k in pcols}, pcols, rng, nr)
        # convert_enum=False / as_dict
        raw_ids = clr.bins(convert_enum=False)["chrom"][:]
        names = list(T["chroms"]["name"])
        if enc == "enum":
            c.check([names[i] for i in raw_ids.tolist()] == T["bins"]["chrom"].tolist(), "convert_enum-false-wrong",
                    "bins(convert_enum=False)['chrom'] are not the integer codes")
        dd = clr.pixels(as_dict=True)[1:4] if len(P) >= 4 else None
        if dd is not None:
            c.check(isinstance(dd, dict) and dd["bin1_id"].tolist() == T["pixels"]["bin1_id"][1:4].tolist()
                    and dd["count"].tolist() == T["pixels"]["count"][1:4].tolist(), "as_dict-wrong-rows",
                    "pixels(as_dict=True)[1:4] does not return the stored rows 1..3")
            c.feature("selector:as_dict")
        # pixels(join=True) consistent with the bin table
        if len(P):
            c.feature("pixels-join")
            a = int(rng.integers(0, len(P))); b = int(rng.integers(a, len(P) + 1))
            j = clr.pixels(join=True)[a:b]
            ids1, ids2 = T["pixels"]["bin1_id"][a:b], T["pixels"]["bin2_id"][a:b]
            ok = list(j.index) == list(range(a, b))
            for side, ids in (("1", ids1), ("2", ids2)):
                for bc in ("chrom", "start", "end"):
                    ok = ok and col_eq(j[bc + side], T["bins"][bc][ids])
            ok = ok and col_eq(j["count"], T["pixels"]["count"][a:b])
            c.check(ok, "pixels-join-wrong", f"pixels(join=True)[{a}:{b}] does not carry each pixel's own bin coordinates")
        check_annotate(c, cooler, clr, T, rng, n, 16)
        # history: the chromosome names stored in the file change (rename on this live object); the same selectors
        # and joins must then speak the names stored NOW
        if idx % 3 == 1 and not c.failed:
            old = list(T["chroms"]["name"])
            mp = {nm: f"renamed.{k}" for k, nm in enumerate(old) if k % 2 == 0}
            cooler.rename_chroms(clr, mp)
            T2 = raw_tables(path, group)
            c.feature("history:selectors-after-rename_chroms")
            for label, obj in (("live-object", clr), ("reopened", cooler.Cooler(uri))):
                check_selector(c, "bins", obj.bins(), {k: T2["bins"][k] for k in bcols}, bcols, rng, 12)
                if len(P):
                    j = obj.pixels(join=True)[:]
                    ids1 = T2["pixels"]["bin1_id"]
                    c.check(col_eq(j["chrom1"], T2["bins"]["chrom"][ids1]), f"pixels-join-wrong:after-rename:{label}",
                            f"[{label}] pixels(join=True) after rename_chroms({mp}) does not carry the names stored in the file")
                pix = pd.DataFrame({k: T2["pixels"][k] for k in ("bin1_id", "bin2_id", "count")}).iloc[: max(1, len(P) // 2)]
                if len(pix):
                    got = cooler.annotate(pix, obj.bins())
                    c.check(col_eq(got["chrom2"], T2["bins"]["chrom"][pix["bin2_id"].to_numpy()]),
                            f"annotate-wrong:after-rename:{label}", f"[{label}] annotate against bins() after a rename uses old names")
        ctx.sample({"family": fam, "encoding": enc, "nbins": n, "nnz": len(P), "extra_bin_columns": bool(bex)}, limit=4)
    os.remove(path)


def many_contigs(ctx, shard):
    """Thousands of contigs: create_cooler itself stores bins/chrom as plain integers (the enum header
    would be too large); selectors, joins and annotate must still speak in chromosome names."""
    import cooler

    rng = ctx.rng("many", shard["sub"])
    cid = f"many:{shard['sub']}"
    if not ctx.want(cid):
        return
    nct = int([6000, 9000, 7000, 12000][shard["sub"] % 4])
    bt = [[f"scaffold_{i:06d}_len", [0, 5] if i % 4 else [0, 3, 5]] for i in range(nct)]
    n = gen.bt_nbins(bt)
    P = {}
    for _ in range(500):
        a, b = sorted((int(rng.integers(n)), int(rng.integers(n))))
        P[(a, b)] = int(rng.integers(1, 9))
    path = ctx.path()
    make_cooler(path, bt, P, extra={"score": {k: 0.5 for k in P}})
    with h5py.File(path, "r") as f:
        is_enum = h5py.check_dtype(enum=f["bins/chrom"].dtype) is not None
    T = raw_tables(path)
    with ctx.case(cid, {"contigs": nct, "enum": is_enum, "encoding": "int" if not is_enum else "enum"}) as c:
        c.feature("many-contigs:int-encoded-by-cooler" if not is_enum else "many-contigs:still-enum")
        clr = cooler.Cooler(path)
        check_selector(c, "chroms", clr.chroms(), T["chroms"], ["name", "length"], rng, 25)
        bcols = ["chrom", "start", "end"]
        check_selector(c, "bins", clr.bins(), {k: T["bins"][k] for k in bcols}, bcols, rng, 40)
        pcols = ["bin1_id", "bin2_id", "count", "score"]
        check_selector(c, "pixels", clr.pixels(), {k: T["pixels"][k] for k in pcols}, pcols, rng, 30)
        a = 100
        j = clr.pixels(join=True)[a:a + 50]
        ids1, ids2 = T["pixels"]["bin1_id"][a:a + 50], T["pixels"]["bin2_id"][a:a + 50]
        ok = col_eq(j["chrom1"], T["bins"]["chrom"][ids1]) and col_eq(j["chrom2"], T["bins"]["chrom"][ids2]) \
            and col_eq(j["start1"], T["bins"]["start"][ids1]) and col_eq(j["end2"], T["bins"]["end"][ids2])
        c.check(ok, "pixels-join-wrong", "pixels(join=True) on a many-contig file does not carry each pixel's own bin coordinates")
        mp = clr.matrix(balance=False, as_pixels=True, join=True)[0:n // 2, 0:n]
        want = [(T["bins"]["chrom"][i], T["bins"]["chrom"][j_]) for (i, j_) in sorted(P) if i < n // 2]
        c.check(list(zip(mp["chrom1"].astype(str), mp["chrom2"].astype(str))) == want, "matrix-pixels-join-wrong",
                "matrix(as_pixels=True, join=True) chromosome names differ on a many-contig file")
        c.nontrivial("many", nct)
        ctx.sample({"many_contigs": nct, "stored_as_enum": is_enum}, limit=6)
    os.remove(path)


def narrow_ids(ctx, shard):
    """Pixel bin ids stored in a narrow signed type whose maximum IS the largest id used (int8: 127, with 129..255
    bins in the table): every window computed from the ids (max + 1) sits at the edge of the type."""
    import cooler

    rng0 = ctx.rng("narrow", shard["sub"])
    for i in range(shard["cases"]):
        cid = f"narrow:{shard['sub']}:{i}"
        rng = ctx.rng("narrow-case", shard["sub"], i)
        if not ctx.want(cid):
            continue
        n = int(rng.integers(129, 256))
        top = int([127, 127, 126, 100][i % 4])
        bt = [["chrA", list(range(0, n // 2 + 1))], ["chrB", list(range(0, n - n // 2 + 1))]]
        P = {}
        for _ in range(int(rng.integers(2, 30))):
            a, b = sorted((int(rng.integers(top + 1)), int(rng.integers(top + 1))))
            P[(a, b)] = int(rng.integers(1, 9))
        P[(int(rng.integers(top + 1)), top)] = 3
        path = ctx.path()
        make_cooler(path, bt, P, dtypes={"bin1_id": np.int8, "bin2_id": np.int8},
                    bins_extra={"gc": np.round(rng.random(n), 3)})
        T = raw_tables(path)
        with ctx.case(cid, {"nbins": n, "largest_id": top, "id_dtype": "int8", "nnz": len(P), "encoding": "enum"}) as c:
            c.feature("bin-id-dtype:int8", f"bin-id-dtype:int8:largest-id={'127' if top == 127 else '<127'}")
            clr = cooler.Cooler(path)
            check_annotate(c, cooler, clr, T, rng, n, 8)
            pcols = ["bin1_id", "bin2_id", "count"]
            check_selector(c, "pixels", clr.pixels(), {k: T["pixels"][k] for k in pcols}, pcols, rng, 10)
            j = clr.pixels(join=True)[:]
            ids1, ids2 = T["pixels"]["bin1_id"].astype(int), T["pixels"]["bin2_id"].astype(int)
            c.check(col_eq(j["chrom1"], T["bins"]["chrom"][ids1]) and col_eq(j["start2"], T["bins"]["start"][ids2]),
                    "pixels-join-wrong", "pixels(join=True) with int8 ids does not carry each pixel's own bin coordinates")
            c.nontrivial("narrow", n, top, repr(sorted(P)))
        os.remove(path)
