"""C03 A 2D range query equals the same slice of the full matrix."""
from __future__ import annotations

import os

import h5py
import numpy as np

from .. import gen, model, probes
from ..build import make_cooler

RULE = ("per generated matrix (full/sparse/empty rows, with and without diagonal, dense, empty; both storage "
        "modes) EVERY window 0<=i0<=i1<=n, 0<=j0<=j1<=n is queried through the real matrix engine in dense, "
        "sparse and pixel form for chunk sizes {1,2,3,nnz,nnz+1,1e7} and compared with the slice of a dense "
        "reference built from the generated pixels; slice spellings (None, negative, scalar) and store forms "
        "(path, URI, open handle) are driven through Cooler.matrix. Larger n: windows sampled with bias to "
        "diagonal-straddling shapes. Non-trivial: window non-empty and intersecting stored data (or its "
        "mirror); distinct = (matrix, mode, window)")
ASSUMPTIONS = ["Dense(P, mode) built from the generated pixels is the full matrix",
               "bounds outside [-n, n] are outside the property's domain"]
EXHAUSTIVE = {"quick": "all windows for n in 1..6 on each generated matrix",
              "thorough": "all windows for n in 1..10 on each generated matrix; n in {17,40} sampled"}
MIN_NONTRIVIAL = {"quick": 3000, "thorough": 30000}
REQUIRED_PROBES = ["get_spans", "filllower"]
REQUIRED_FEATURES = ["window:anchored", "window:disjoint", "window:overlap", "window:nested",
                     "window:overlap:T", "window:nested:T", "window:disjoint:T", "spans:edge-on-empty-row",
                     "file:legacy-int32-offset-index", "file:legacy-int32-offset-index:nnz^2>=2^31",
                     "file:pixel-stored-as-two-records", "spelling:slice-below-axis", "spelling:slice-beyond-end",
                     "history:long-lived-object-after-file-recreated-in-place",
                     "spelling:narrow-numpy-scalar-at-type-maximum"]

PATS = ["dense", "sparse30", "sparse70", "emptyrows", "nodiag", "diag", "fullrow", "lastrow", "isolated",
        "sparse05", "empty", "emptyrows"]


def plan(tier, seed):
    shards = []
    if tier == "quick":
        sid = 0
        for n in (6, 5, 4):
            for symm in (True, False):
                reps = {6: 10, 5: 4, 4: 2}[n] if symm else {6: 4, 5: 2, 4: 2}[n]
                for r in range(reps):
                    shards.append({"kind": "exh", "n": n, "pat": PATS[r % len(PATS)], "symm": symm, "sub": sid})
                    sid += 1
        shards.append({"kind": "exh_small", "ns": [1, 2, 3], "sub": sid})
        shards.append({"kind": "spell", "n": 6, "cases": 6, "sub": sid + 1})
        shards.append({"kind": "sampled", "n": 17, "windows": 1500, "sub": sid + 2, "symm": True})
        # scale boundary: (pixels in the row range) x (number of chunks) beyond 2**31 on a 32-bit offset index
        shards.append({"kind": "sampled", "n": 312, "windows": 12, "sub": sid + 3, "symm": True, "legacy": True})
        shards.append({"kind": "sampled", "n": 222, "windows": 12, "sub": sid + 4, "symm": False, "legacy": True})
    else:
        sid = 0
        for n in (10, 9, 8, 7, 6):
            reps = {10: 12, 9: 8, 8: 8, 7: 6, 6: 12}[n]
            for r in range(reps):
                for symm in (True, False):
                    shards.append({"kind": "exh", "n": n, "pat": PATS[r % len(PATS)], "symm": symm, "sub": sid})
                    sid += 1
        shards.append({"kind": "exh_small", "ns": [1, 2, 3, 4, 5], "sub": sid})
        for i in range(4):
            shards.append({"kind": "spell", "n": 7 + i, "cases": 10, "sub": sid + 1 + i})
        for i, n in enumerate((17, 40, 17, 40, 25, 33)):
            shards.append({"kind": "sampled", "n": n, "windows": 5000, "sub": sid + 10 + i, "symm": i % 3 != 2})
        for i, n in enumerate((312, 222, 330, 240)):
            shards.append({"kind": "sampled", "n": n, "windows": 40, "sub": sid + 20 + i, "symm": i % 2 == 0, "legacy": True})
    return shards


def run(ctx, shard):
    probes.activate(ctx, owned={"get_spans", "filllower"})
    probes.probe_get_spans()
    probes.probe_filllower()
    k = shard["kind"]
    if k == "exh":
        rng = ctx.rng("exh", shard["sub"])
        one_matrix(ctx, f"exh:{shard['sub']}", rng, shard["n"], shard["pat"], shard["symm"], None)
    elif k == "exh_small":
        rng = ctx.rng("small", shard["sub"])
        t = 0
        for n in shard["ns"]:
            for pat in ("dense", "sparse70", "diag", "nodiag", "empty"):
                for symm in (True, False):
                    one_matrix(ctx, f"small:{n}:{pat}:{int(symm)}", rng, n, pat, symm, None)
                    t += 1
    elif k == "sampled":
        rng = ctx.rng("sampled", shard["sub"])
        pat = ["sparse30", "emptyrows", "dense", "nodiag"][shard["sub"] % 4]
        if shard.get("legacy"):
            pat = "dense"
        one_matrix(ctx, f"sampled:{shard['sub']}", rng, shard["n"], pat, shard["symm"], shard["windows"],
                   legacy=shard.get("legacy"))
    elif k == "spell":
        run_spell(ctx, shard)


def all_ranges(n):
    return [(a, b) for a in range(n + 1) for b in range(a, n + 1)]


def sample_windows(rng, n, count):
    out = []
    for _ in range(count):
        r = rng.random()
        i0 = int(rng.integers(0, n + 1)); i1 = int(rng.integers(i0, n + 1))
        if r < 0.35:   # straddling / nested around the diagonal
            j0 = int(np.clip(i0 + rng.integers(-3, 4), 0, n)); j1 = int(np.clip(i1 + rng.integers(-3, 4), j0, n))
        elif r < 0.5:  # anchored
            j0 = i0; j1 = int(rng.integers(j0, n + 1))
        else:
            j0 = int(rng.integers(0, n + 1)); j1 = int(rng.integers(j0, n + 1))
        out.append((i0, i1, j0, j1))
    return out


def check_window(c, api, h5, D, rows, nnz, symm, w, chunks, mkey, field="count"):
    i0, i1, j0, j1 = w
    ref = D[i0:i1, j0:j1]
    wantp = [r for r in rows if i0 <= r[1] < i1 and j0 <= r[2] < j1]
    for cs in chunks:
        arr = api.matrix(h5, i0, i1, j0, j1, field, False, False, False, False, True, False, cs, symm)
        if not (arr.shape == ref.shape and np.array_equal(arr, ref)):
            c.fail(window_key("dense", w, symm), f"dense window {w} chunksize={cs} != slice of full matrix",
                   {"matrix": mkey, "window": w, "chunksize": cs, "got": arr, "want": ref})
            return False
        sp = api.matrix(h5, i0, i1, j0, j1, field, False, True, False, False, True, False, cs, symm)
        coords = list(zip(sp.row.tolist(), sp.col.tolist()))
        # (a coordinate may repeat only as often as the file itself stores that pixel)
        stored_twice = {(r[1], r[2]) for r in rows} if len({(r[1], r[2]) for r in rows}) < len(rows) else None
        if sp.shape != ref.shape or (len(set(coords)) != len(coords) and stored_twice is None):
            c.fail(window_key("sparse-duplicate", w, symm),
                   f"sparse window {w} chunksize={cs}: shape {sp.shape} or repeated coordinate",
                   {"matrix": mkey, "window": w, "chunksize": cs, "coords": coords[:40]})
            return False
        if not np.array_equal(sp.toarray(), ref):
            c.fail(window_key("sparse", w, symm), f"sparse window {w} chunksize={cs} != slice of full matrix",
                   {"matrix": mkey, "window": w, "chunksize": cs})
            return False
        df = api.matrix(h5, i0, i1, j0, j1, field, False, False, True, False, False, False, cs, symm)
        gotp = list(zip(df.index.tolist(), df["bin1_id"].tolist(), df["bin2_id"].tolist(), df[field].tolist()))
        if gotp != wantp:
            c.fail(window_key("pixels", w, symm),
                   f"pixel output of window {w} chunksize={cs} != stored records inside the window in storage order",
                   {"matrix": mkey, "window": w, "chunksize": cs, "got": gotp[:20], "want": wantp[:20]})
            return False
        c.ctx.oracle_evals += 3
    df = api.matrix(h5, i0, i1, j0, j1, field, False, False, True, False, True, False, chunks[-1], symm)
    gotp = list(zip(df["bin1_id"].tolist(), df["bin2_id"].tolist(), df[field].tolist()))
    if gotp != [r[1:] for r in wantp]:
        c.fail(window_key("pixels-noindex", w, symm), f"pixel output (ignore_index) of window {w} wrong",
               {"matrix": mkey, "window": w})
        return False
    c.ctx.oracle_evals += 1
    return True


def window_key(form, w, symm):
    i0, i1, j0, j1 = w
    tr = i1 > j1
    a0, a1, b0, b1 = (j0, j1, i0, i1) if tr else (i0, i1, j0, j1)
    if a0 == b0:
        br = "anchored"
    elif a0 < b0 and a1 <= b0:
        br = "disjoint"
    elif a0 < b0 and a1 <= b1:
        br = "overlap"
    else:
        br = "nested"
    return f"window-{form}:{'symm' if symm else 'square'}:{br}{':T' if tr else ''}"


def one_matrix(ctx, cid, rng, n, pat, symm, nsample, legacy=None):
    import cooler.api as api

    if not ctx.want(cid):
        return
    values = "int" if rng.random() < 0.7 else "dyadic"
    P = gen.gen_pixels(rng, n, symm, pat, values=values)
    bt = [["a", list(range(0, n + 1))]] if n < 4 or rng.random() < 0.5 else \
        [["a", list(range(0, n // 2 + 1))], ["b", list(range(0, n - n // 2 + 1))]]
    path = ctx.path()
    group = "/" if rng.random() < 0.6 else ["/a/b", "/resolutions/100"][int(rng.integers(2))]
    if group != "/" and rng.random() < 0.5:
        make_cooler(path, [["r", [0, 1, 2]]], {(0, 1): 9})         # another collection sits at the root
    E = {kk: float(int(rng.integers(-60, 60))) / 4.0 for kk in P}
    dupkey = None
    if P and n <= 40 and rng.random() < 0.15 and len(P) < (n * (n + 1) // 2 if symm else n * n):
        # a pixel stored as TWO records (last of one input chunk, first of the next: creation accepts that);
        # every output form must then show their sum / both records
        import cooler
        dupkey = sorted(P)[int(rng.integers(len(P)))]
        df = gen.pixels_frame(P, {"score": E}, count_dtype=np.float64 if values == "dyadic" else None)
        r_ = sorted(P).index(dupkey)
        v1 = P[dupkey] / 2 if values == "dyadic" else P[dupkey] // 2
        c1, c2 = df.iloc[: r_ + 1].copy(), df.iloc[r_:].copy()
        c1.iloc[-1, c1.columns.get_loc("count")] = v1
        c2.iloc[0, c2.columns.get_loc("count")] = P[dupkey] - v1
        c2.iloc[0, c2.columns.get_loc("score")] = 0.0
        kw_ = dict(columns=["count", "score"], ordered=True, symmetric_upper=symm, mode="a",
                   dtypes={"count": np.float64, "score": np.float64} if values == "dyadic" else {"score": np.float64})
        if not symm:
            kw_["triucheck"] = False
        cooler.create_cooler(path + ("::" + group if group != "/" else ""), gen.bt_frame(bt), iter([c1, c2]), **kw_)
    else:
        make_cooler(path + ("::" + group if group != "/" else ""), bt, P, symm=symm, mode="a", extra={"score": E},
                    count_dtype=np.float64 if values == "dyadic" else None)
    if legacy is None:
        legacy = bool(rng.random() < 0.2)
    if legacy:
        # layout of files written by early versions: 32-bit offset indexes, no storage-mode attribute
        with h5py.File(path, "r+") as f:
            g = f[group]
            for k_ in ("bin1_offset", "chrom_offset"):
                d_ = g["indexes"][k_][:].astype(np.int32)
                del g["indexes"][k_]
                g["indexes"].create_dataset(k_, data=d_)
            if symm and rng.random() < 0.5:
                del g.attrs["storage-mode"]
    D = model.dense(P, n, symm)
    DE = model.dense(E, n, symm)
    rowsE = [(k, i, j, E[(i, j)]) for k, (i, j) in enumerate(sorted(P))]
    rows = [(k, i, j, P[(i, j)]) for k, (i, j) in enumerate(sorted(P))]
    if dupkey is not None:
        recs, recsE = [], []
        for (i, j) in sorted(P):
            if (i, j) == dupkey:
                v1 = P[dupkey] / 2 if values == "dyadic" else P[dupkey] // 2
                recs += [(i, j, v1), (i, j, P[dupkey] - v1)]
                recsE += [(i, j, E[dupkey]), (i, j, 0.0)]
            else:
                recs.append((i, j, P[(i, j)]))
                recsE.append((i, j, E[(i, j)]))
        rows = [(k, i, j, v) for k, (i, j, v) in enumerate(recs)]
        rowsE = [(k, i, j, v) for k, (i, j, v) in enumerate(recsE)]
    nnz = len(rows)
    chunks = sorted(set([1, 2, 3, max(nnz, 1), nnz + 1])) + [10_000_000]
    mkey = {"n": n, "pattern": pat, "symm": symm, "pixels": sorted((i, j, v) for (i, j), v in P.items())}
    with ctx.case(cid, {"n": n, "pattern": pat, "symm": symm, "nnz": nnz, "chunksizes": chunks}) as c:
        c.feature(f"mode:{'symm' if symm else 'square'}", f"pattern:{pat}")
        if dupkey is not None:
            c.feature("file:pixel-stored-as-two-records")
        if legacy:
            c.feature("file:legacy-int32-offset-index")
        if legacy and nnz > 46341:
            c.feature("file:legacy-int32-offset-index:nnz^2>=2^31")
        if any(i == j for i, j in P):
            c.feature("matrix:has-diagonal")
        if nsample is None:
            rr = all_ranges(n)
            windows = [(a, b, x, y) for a, b in rr for x, y in rr]
        else:
            windows = sample_windows(rng, n, nsample)
            chunks = [1, 3, max(nnz // 3, 1), 10_000_000]
            if n > 100:
                windows = [(0, n, 0, n), (0, n - 5, 3, n), (n // 2, n, 0, n // 2)] + windows
                chunks = [1, 2, 7, 10_000_000]
        nw = 0
        c.feature("location:root" if group == "/" else "location:nested-group")
        with h5py.File(path, "r") as h5f:
            h5 = h5f[group]
            for w in windows:
                ok = check_window(c, api, h5, D, rows, nnz, symm, w, chunks, mkey)
                if ok and nw % 7 == 3:
                    # the same window through another value column
                    ok = check_window(c, api, h5, DE, rowsE, nnz, symm, w, chunks[-2:], mkey, field="score")
                    c.feature("field:extra-column")
                nw += 1
                i0, i1, j0, j1 = w
                if i1 > i0 and j1 > j0 and D[i0:i1, j0:j1].any():
                    c.nontrivial(cid, repr(sorted(P)), symm, w)
                if not ok:
                    break
        ctx.evaluations += nw - 1
        ctx.extra["windows"] = ctx.extra.get("windows", 0) + nw
        ctx.sample({"matrix": {"n": n, "pattern": pat, "symm": symm, "nnz": nnz}, "windows": nw,
                    "example_window": list(windows[len(windows) // 2]), "chunksizes": chunks}, limit=5)
    os.remove(path)


def spell_axis(rng, a, b, n):
    """Alternative spellings of range [a,b) on an axis of length n -> list of index objects."""
    outs = []
    # bounds beyond the axis denote what they denote for arrays: clipped to the axis (F34)
    starts = [a] + ([None, -n - int(rng.integers(1, 9))] if a == 0 else []) + ([a - n] if 0 <= a < n else [])
    stops = [b] + ([None] if b == n else []) + ([b - n] if 0 <= b < n else [])
    if b == n and rng.random() < 0.3:
        stops.append(n + int(rng.integers(1, 9)))
    for s in starts:
        for t in stops:
            outs.append(slice(s, t))
    if b == a + 1:
        outs.append(a)
        outs.append(a - n)
        outs.append(np.int64(a))
    return outs


def run_spell(ctx, shard):
    import cooler

    rng = ctx.rng("spell", shard["sub"])
    n = shard["n"]
    for k in range(shard["cases"]):
        cid = f"spell:{shard['sub']}:{k}"
        if not ctx.want(cid):
            continue
        symm = k % 2 == 0
        pat = PATS[k % len(PATS)]
        P = gen.gen_pixels(rng, n, symm, pat)
        bt = [["a", list(range(0, n + 1))]]
        path = ctx.path()
        make_cooler(path, bt, P, symm=symm)
        D = model.dense(P, n, symm)
        with ctx.case(cid, {"n": n, "pattern": pat, "symm": symm}) as c:
            f = h5py.File(path, "r")
            # an HDF5 file that exists in memory only (core driver, no backing store): nothing on disk bears its name
            mem = h5py.File(os.path.join(os.path.dirname(path), f"only-in-memory-{k}.h5"), "w", driver="core", backing_store=False)
            for key_ in f.keys():
                f.copy(key_, mem)
            mem.attrs.update(f.attrs)
            stores = {"path": cooler.Cooler(path), "uri": cooler.Cooler(path + "::/"),
                      "handle": cooler.Cooler(f), "group": cooler.Cooler(f["/"]), "in-memory-handle": cooler.Cooler(mem)}
            # pixel-table output with joined coordinates through every store form
            keysP = sorted(P)
            for st_, obj_ in stores.items():
                for join_ in (False, True):
                    dfp = obj_.matrix(balance=False, as_pixels=True, join=join_)[0:n, 0:n]
                    okp = dfp["count"].tolist() == [P[kk] for kk in keysP] and \
                        (("start1" in dfp.columns and dfp["start1"].tolist() == [kk[0] for kk in keysP]) if join_
                         else dfp["bin1_id"].tolist() == [kk[0] for kk in keysP])
                    c.check(okp, f"window-pixels:store-form:{st_}", f"matrix(as_pixels=True, join={join_})[:, :] via a Cooler on "
                            f"{st_} is not the stored pixel table" + (" with its bin coordinates" if join_ else ""))
            rr = all_ranges(n)
            nq = 0
            for (a, b) in rr:
                for (x, y) in [rr[int(rng.integers(len(rr)))] for _ in range(4)] + [(a, b)]:
                    ref = D[a:b, x:y]
                    for si in spell_axis(rng, a, b, n):
                        for sj in spell_axis(rng, x, y, n)[:3] + spell_axis(rng, x, y, n)[-1:]:
                            st = list(stores)[nq % len(stores)]
                            sel = stores[st].matrix(balance=False, sparse=(nq % 5 == 0))
                            if any(isinstance(v_, int) and v_ > n for v_ in (getattr(si, "stop", 0), getattr(sj, "stop", 0))):
                                # a stop beyond the axis: arrays clip it.  One mechanism, one key (known finding F36)
                                c.feature("spelling:slice-beyond-end")
                                try:
                                    got = sel[si, sj]
                                    got = got.toarray() if nq % 5 == 0 else got
                                    okb = got.shape == ref.shape and np.array_equal(got, ref)
                                except Exception:  # noqa
                                    okb = False
                                nq += 1
                                if not okb:
                                    c.fail("slice-bound-beyond-axis-not-clipped", f"matrix[{si!r}, {sj!r}] via {st} != "
                                           f"full[{a}:{b},{x}:{y}]", {"n": n})
                                continue
                            got = sel[si, sj]
                            if nq % 5 == 0:
                                got = got.toarray()
                            nq += 1
                            c.feature(f"store:{st}")
                            if isinstance(si, slice) and isinstance(sj, slice):
                                kind = "slice"
                                if any(isinstance(v_, int) and v_ < -n for v_ in (si.start, si.stop, sj.start, sj.stop)):
                                    kind = "slice-below-axis"
                            else:
                                kind = "scalar"
                            c.feature(f"spelling:{kind}")
                            if not (got.shape == ref.shape and np.array_equal(got, ref)):
                                c.fail(f"slice-spelling:{kind}", f"matrix[{si!r}, {sj!r}] via {st} != full[{a}:{b},{x}:{y}]",
                                       {"pixels": sorted(P.items()), "n": n, "symm": symm})
                                break
                    # single index => all columns
                    if x == 0 and y == n:
                        got = stores["path"].matrix(balance=False)[a:b]
                        c.check(np.array_equal(got, D[a:b, :]), "slice-spelling:row-only",
                                f"matrix[{a}:{b}] != full[{a}:{b}, :]")
                    c.nontrivial("spell", cid, a, b, x, y)
            ctx.oracle_evals += nq
            ctx.evaluations += nq
            mem.close()
            f.close()
            if k == 0:
                # a scalar index given as a NARROW numpy integer that sits at the maximum of its type (int8 127,
                # uint8 255) selects the one-element range like any other scalar (F37: `s + 1` wrapped)
                n2 = 258
                bt2 = [["b", list(range(0, n2 + 1))]]
                P3 = {(0, 127): 1, (127, 127): 2, (127, 200): 3, (255, 255): 4, (3, 255): 5, (255, 257): 6}
                if not symm:
                    P3.update({(127, 5): 7, (255, 9): 8})
                p3 = ctx.path()
                make_cooler(p3, bt2, P3, symm=symm)
                D3 = model.dense(P3, n2, symm)
                m3 = cooler.Cooler(p3).matrix(balance=False)
                c.feature("spelling:narrow-numpy-scalar-at-type-maximum")
                for idx_ in (np.int8(127), np.uint8(255), np.uint8(127), np.int16(127)):
                    v_ = int(idx_)
                    try:
                        okn = np.array_equal(m3[idx_, :], D3[v_:v_ + 1, :]) and np.array_equal(m3[:, idx_], D3[:, v_:v_ + 1])
                    except Exception:  # noqa
                        okn = False
                    nq += 2
                    c.check(okn, "slice-spelling:narrow-numpy-scalar", f"matrix[{idx_!r} ({type(idx_).__name__}), :] is not row {v_} "
                            "of the full matrix")
                os.remove(p3)
            # history: the file is re-created in place (same bins, other pixels); the Cooler objects built from the path
            # and already queried above are used again - the windows must be those of the matrix stored NOW
            P2 = gen.gen_pixels(rng, n, symm, PATS[(k + 5) % len(PATS)])
            if sorted(P2) != sorted(P):
                make_cooler(path, bt, P2, symm=symm)
                D2 = model.dense(P2, n, symm)
                c.feature("history:long-lived-object-after-file-recreated-in-place")
                for st in ("path", "uri"):
                    for (a, b) in [(0, n), (0, max(1, n // 2)), (n // 2, n)]:
                        for (x, y) in [(0, n), (n // 2, n)]:
                            got = stores[st].matrix(balance=False)[a:b, x:y]
                            gs_ = stores[st].matrix(balance=False, sparse=True)[a:b, x:y].toarray()
                            nq += 1
                            if not c.check(np.array_equal(got, D2[a:b, x:y]) and np.array_equal(gs_, D2[a:b, x:y]),
                                           "window-after-file-recreated:long-lived-object",
                                           f"matrix[{a}:{b},{x}:{y}] through the Cooler object ({st}) that was queried before the "
                                           "file was re-created in place is not the window of the matrix stored now",
                                           {"old": sorted(P.items())[:12], "new": sorted(P2.items())[:12]}):
                                break
                    pt = stores[st].pixels()[:] if len(P2) == len(P) else None      # (the row count is read at construction)
                    if pt is not None:
                        c.check(list(zip(pt["bin1_id"].tolist(), pt["bin2_id"].tolist())) == sorted(P2),
                                "window-after-file-recreated:pixel-table", "pixels()[:] through the long-lived object != stored rows")
            ctx.sample({"spelling_case": {"n": n, "pattern": pat, "symm": symm}, "queries": nq}, limit=7)
        os.remove(path)
