"""C06 Unordered ingestion equals aggregating all records in memory."""
from __future__ import annotations

import os
import sys

import numpy as np
import pandas as pd

from .. import gen, model, probes
from ..build import read_pixels_raw

RULE = ("one record multiset (pixels repeated across chunks, 1-2 value columns, both storage modes), many "
        "executions of create_cooler(ordered=False): partitions into 1..12 chunks incl. empty chunks, several chunk "
        "orders, mergebuf from 1 record upward, max_merge from 1 upward (single-pass and recursive two-level merge), "
        "sorted chunks or ensure_sorted; every execution's pixel table (raw h5py) must equal the one in-memory fold "
        "exactly; temp files created by the execution (audit hook + directory listing) must be gone after success. "
        "Non-trivial: >= 2 chunks and >= 1 pixel; distinct = (multiset, partition, order, mergebuf, max_merge). CLI shards: "
        "`cooler cload pairs --field score=N:dtype=float[,agg=sum|max|min]` over the same records with --chunksize "
        "1, 2, 3, n-1, n, 1e6: counts and the value column must be the aggregate over ALL records of each pixel")
ASSUMPTIONS = ["values are ints or dyadic floats so sums are exact in any order",
               "failed runs are outside the temp-file clause"]
MIN_NONTRIVIAL = {"quick": 200, "thorough": 2000}
REQUIRED_PROBES = ["merge_breakpoints", "merger_iter"]
REQUIRED_FEATURES = ["merge:single-pass", "merge:two-pass", "chunks:empty", "chunks:repeat-pixel", "mergebuf:1",
                     "ensure_sorted", "mode:square", "mode:symm", "maxmerge:below-chunk-count:2-3-chunks",
                     "epoch:empty-row-with-tiny-buffer", "chunks:all-empty", "counts:float-fractional",
                     "chunks:repeat-pixel-within-chunk(dupcheck=False)", "pixels:all-records-zero", "input-id-dtype:uint32",
                     "input-id-dtype:uint64", "input-id-dtype:int32", "bins:extra-column-with-NaN:variable-width",
                     "history:re-chunked-in-place-from-lazy-iterator", "via:cli-cload-pairs", "cli-chunksize:1",
                     "cli-chunksize:between", "cli-agg:sum", "cli-agg:max", "overflow-across-chunks:sum-does-not-fit"]


def plan(tier, seed):
    n = 16 if tier == "quick" else 48
    per = 7 if tier == "quick" else 60
    return [{"kind": "unordered", "sub": i, "cases": per} for i in range(n)] + \
           [{"kind": "cli", "sub": i, "cases": 6 if tier == "quick" else 40} for i in range(2 if tier == "quick" else 6)]


_AUDIT = {"on": False, "paths": []}


def _hook(event, args):
    if _AUDIT["on"] and event == "tempfile.mkstemp":
        _AUDIT["paths"].append(args[0])


def run(ctx, shard):
    sys.addaudithook(_hook)
    probes.activate(ctx, owned={"merge_breakpoints", "merger_iter"})
    probes.probe_merge()
    probes.probe_create_exit()
    rng0 = ctx.rng("plan", shard["kind"], shard["sub"])
    for k in range(shard["cases"]):
        seedk = int(rng0.integers(2**31))
        rng = ctx.rng("case", shard["kind"], shard["sub"], k, seedk)
        if shard["kind"] == "cli":
            cli_records(ctx, shard, k, rng)
        else:
            one_multiset(ctx, shard, k, rng)


def cli_records(ctx, shard, k, rng):
    """`cooler cload pairs` / `cooler load` with --chunksize from 1 record upward: the text loaders cut the input into
    chunks of that many lines and feed them to the unordered creation, so the stored pixel table - counts and every
    value field with its requested aggregate - must not depend on the chunk size."""
    from click.testing import CliRunner
    from cooler.cli import cli

    fam = gen.BT_FAMILIES[(shard["sub"] + k) % len(gen.BT_FAMILIES)]
    bt = [[c.replace(" ", "_").replace(",", "_"), e] for c, e in gen.gen_bt(rng, fam, max_chroms=3, max_bins=10)]
    n = gen.bt_nbins(bt)
    bl = gen.bt_bins_list(bt)
    d = ctx.newdir()
    bed = os.path.join(d, "bins.bed")
    with open(bed, "w") as f:
        for c_, s_, e_ in bl:
            f.write(f"{c_}\t{s_}\t{e_}\n")
    # a few anchor pairs, each hit by 1..5 records (so that a pixel's records fall into different chunks)
    npix = int(rng.integers(1, 8))
    recs = []
    for _ in range(npix):
        b1, b2 = sorted(int(x) for x in rng.integers(0, n, size=2))
        for _ in range(int(rng.integers(1, 6))):
            (c1, s1, e1), (c2, s2, e2) = bl[b1], bl[b2]
            p1, p2 = int(rng.integers(s1, e1)), int(rng.integers(s2, e2))
            sc = float(int(rng.integers(-40, 40))) / 8.0
            rec = (c1, p1, c2, p2, sc) if rng.random() < 0.7 or b1 == b2 else (c2, p2, c1, p1, sc)
            recs.append((rec, (b1, b2)))
    recs = [recs[i] for i in rng.permutation(len(recs))]
    agg = [None, "sum", "max", "min"][int(rng.integers(4))]
    via = "pairs"
    want_cnt, want_sc = {}, {}
    for (c1, p1, c2, p2, sc), key in recs:
        want_cnt[key] = want_cnt.get(key, 0) + 1
        want_sc.setdefault(key, []).append(sc)
    fold = {None: sum, "sum": sum, "max": max, "min": min}[agg]
    want_sc = {kk: fold(v) for kk, v in want_sc.items()}
    txt = os.path.join(d, "in.txt")
    with open(txt, "w") as f:
        for i, ((c1, p1, c2, p2, sc), key) in enumerate(recs):
            f.write(f"r{i}\t{c1}\t{p1}\t{c2}\t{p2}\t{sc}\n")
    sizes = sorted({1, 2, 3, max(1, len(recs) - 1), len(recs), 10**6})
    for csz in sizes:
        cid = f"cli:{shard['sub']}:{k}:{csz}"
        if not ctx.want(cid):
            continue
        out = os.path.join(d, f"out.{csz}.cool")
        fld = "score=6:dtype=float" + (f",agg={agg}" if agg else "")
        args = ["cload", "pairs", "--zero-based", "-c1", "2", "-p1", "3", "-c2", "4", "-p2", "5", "--chunksize", str(csz),
                "--field", fld, bed, txt, out]
        desc = {"via": via, "agg": agg, "chunksize": csz, "records": len(recs), "pixels": len(want_cnt), "bt": bt}
        with ctx.case(cid, desc) as c:
            c.feature("via:cli-cload-pairs", f"cli-agg:{agg}", "cli-chunksize:1" if csz == 1 else
                      ("cli-chunksize:>=records" if csz >= len(recs) else "cli-chunksize:between"))
            r = CliRunner().invoke(cli, args)
            if r.exit_code != 0:
                raise r.exception
            keys, cols = read_pixels_raw(out, "/", ("count", "score"))
            c.check(list(keys) == sorted(want_cnt), "cli-pixel-rows-differ",
                    "pixel rows written by `cload pairs` are not the sorted pixels of the records",
                    lambda: {"got": list(keys)[:20], "want": sorted(want_cnt)[:20]})
            c.check(dict(zip(keys, cols["count"].tolist())) == want_cnt, "cli-counts-depend-on-chunking",
                    f"`cload pairs --chunksize {csz}` counts differ from counting all records at once",
                    lambda: {"got": list(zip(keys, cols["count"].tolist()))[:20], "want": sorted(want_cnt.items())[:20]})
            got_sc = dict(zip(keys, cols["score"].tolist()))
            multi_chunk = csz < len(recs)
            ok = got_sc == want_sc
            if not ok:
                c.fail(f"cli-field-aggregate-depends-on-chunking:{agg or 'default'}" if multi_chunk
                       else f"cli-field-aggregate-wrong:{agg or 'default'}",
                       f"`cload pairs --chunksize {csz} --field {fld}`: the value column is not the requested aggregate "
                       f"of all records of each pixel", {"got": sorted(got_sc.items())[:12], "want": sorted(want_sc.items())[:12]})
            if len(recs) >= 2 and len(recs) > len(want_cnt):
                c.nontrivial("cli", repr(bt), repr(recs[:40]), agg, csz)


def one_multiset(ctx, shard, k, rng):
    import cooler

    fam = gen.BT_FAMILIES[(shard["sub"] + k) % len(gen.BT_FAMILIES)]
    bt = gen.gen_bt(rng, fam, max_chroms=3, max_bins=14)
    n = gen.bt_nbins(bt)
    bins = gen.bt_frame(bt)
    if rng.random() < 0.3:
        # a bin-level annotation column with missing values (it travels through every temporary cooler)
        wcol = np.round(rng.random(n), 3)
        wcol[rng.random(n) < 0.3] = np.nan
        wcol[0] = np.nan
        bins["weight"] = wcol
    symm = bool(rng.random() < 0.6)
    two_cols = bool(rng.random() < 0.4)
    float_counts = bool(rng.random() < 0.35)       # dtypes={"count": float}: fractional parts must survive every pass
    special = (shard["sub"] * 100 + k) % 9
    pat = gen.PATTERNS[int(rng.integers(len(gen.PATTERNS)))]
    if special == 0:
        pat = "empty"
    base = gen.gen_pixels(rng, n, symm, pat, values="int", vmax=20)
    if special == 1 and n >= 3:
        # leading empty row(s): the merge partition starts on rows without records
        base = {(i, j): v for (i, j), v in base.items() if i >= 2} or {(n - 1, n - 1): 3}
    keys = sorted(base)
    zero_pixels = bool(rng.random() < 0.3)
    # records: every pixel split into 1..3 parts that will land in different chunks
    records = []
    for key in keys:
        parts = int(rng.integers(1, 4))
        v = base[key]
        vals = [v] + [int(rng.integers(1, 9)) for _ in range(parts - 1)]
        if float_counts:
            vals = [x + float(int(rng.integers(1, 8))) / 8.0 for x in vals]
        if zero_pixels and rng.random() < 0.2:
            vals = [type(vals[0])(0)] * parts              # every record of this pixel is an explicit zero
        for p_, val in enumerate(vals):
            sc = float(int(rng.integers(-40, 40))) / 8.0
            records.append((key, val, sc, p_))
    cid = f"u:{shard['sub']}:{k}:ovf"
    if keys and ctx.want(cid) and k % 3 == 0:
        # a pixel repeated across chunks whose parts fit the stored integer type while their sum does not: summing all
        # records in memory and creating the cooler is refused (ValueError), so the unordered path may not store
        # anything else than the exact sum either
        sdt, parts = [(None, [2**30, 2**30]), (np.uint8, [200, 100]), (np.int16, [2**14, 2**14, 5]),
                      (None, [2**31 - 1, 1]), (None, [2**30, 2**30 - 1])][int(rng.integers(5))]
        kk = keys[int(rng.integers(len(keys)))]
        others = [q for q in keys if q != kk][:3]
        frames = [pd.DataFrame({"bin1_id": [q[0] for q in sorted(others + [kk])], "bin2_id": [q[1] for q in sorted(others + [kk])],
                                "count": [v if q == kk else 1 for q in sorted(others + [kk])]}) for v in parts]
        exact = {q: len(parts) for q in others}
        exact[kk] = sum(parts)
        fits = exact[kk] <= np.iinfo(sdt or np.int32).max
        with ctx.case(cid, {"bt": bt, "dtype": np.dtype(sdt or np.int32).name, "parts": parts, "symm": symm}) as c:
            c.feature("overflow-across-chunks:" + ("sum-fits" if fits else "sum-does-not-fit"))
            out = os.path.join(ctx.newdir(), "out.cool")
            kw = dict(ordered=False, symmetric_upper=symm, mergebuf=int([1, 2, 10**6][int(rng.integers(3))]))
            if sdt is not None:
                kw["dtypes"] = {"count": sdt}
            if not symm:
                kw["triucheck"] = False
            try:
                cooler.create_cooler(out, bins, iter(frames), **kw)
                raised = None
            except ValueError as e:
                raised = str(e)[:80]
            if raised is None:
                kg, cg = read_pixels_raw(out, "/", ("count",))
                got = dict(zip(kg, [int(v) for v in cg["count"].tolist()]))
                c.check(got == exact, "unordered-overflow-stored-differently",
                        f"parts {parts} of one pixel in different chunks: stored {got.get(kk)} in "
                        f"{np.dtype(sdt or np.int32).name} without error, exact sum {exact[kk]}",
                        lambda: {"got": sorted(got.items()), "want": sorted(exact.items())})
            else:
                c.check(not fits, "unordered-valid-sum-refused", f"a sum that fits the stored type was refused: {raised}")
            c.nontrivial("ovf", repr(bt), repr(parts), repr(kk))
    total = model.fold(((r[0], r[1]) for r in records))
    total_sc = model.fold(((r[0], r[2]) for r in records))
    rowlen = max([sum(1 for kk in total if kk[0] == i) for i in range(n)] or [1])
    nexec = 7
    for x in range(nexec):
        cid = f"u:{shard['sub']}:{k}:{x}"
        if not ctx.want(cid):
            rng.integers(10, size=50)
            continue
        r2 = ctx.rng("exec", shard["sub"], k, x)
        nchunks = int(r2.integers(1, 13))
        if special == 2:
            nchunks = int(r2.integers(2, 4))           # 2 or 3 chunks (F11 territory)
        # assign parts of the same pixel to different chunks
        assign = {}
        chunks = [[] for _ in range(nchunks)]
        for key, val, sc, p_ in records:
            used = assign.setdefault(key, set())
            free = [ci for ci in range(nchunks) if ci not in used]
            if not free:
                # more parts than chunks: fold into an existing record of some chunk
                ci = int(r2.integers(nchunks))
                for rec in chunks[ci]:
                    if rec[0] == key:
                        rec[1] += val
                        rec[2] += sc
                        break
                continue
            ci = free[int(r2.integers(len(free)))]
            used.add(ci)
            chunks[ci].append([key, val, sc])
        nempty = int(r2.integers(0, 3)) if r2.random() < 0.4 else 0
        for _ in range(nempty):
            chunks.insert(int(r2.integers(len(chunks) + 1)), [])
        order = r2.permutation(len(chunks))
        chunks = [chunks[i] for i in order]
        ensure_sorted = bool(r2.random() < 0.3)
        # dupcheck=False: a chunk may list a pixel more than once (records are combined all the same)
        dup_in_chunk = bool(r2.random() < 0.25)
        if dup_in_chunk:
            cap = n * (n + 1) // 2 if symm else n * n        # a chunk cannot hold more rows than the matrix has cells
            for ch in chunks:
                for rec in list(ch)[: int(r2.integers(0, 3))]:
                    half = rec[1] / 2 if float_counts else rec[1] // 2
                    if half and len(ch) < cap:
                        ch.append([rec[0], half, 0.0])
                        rec[1] -= half
        mergebuf = int([1, 2, max(rowlen - 1, 1), rowlen, max(len(total), 1), 10**7][int(r2.integers(6))])
        nck = len(chunks)
        mm_choices = [1, 2, 3, max(nck - 1, 1), nck, 200]
        max_merge = int(mm_choices[int(r2.integers(6))])
        if special == 2:
            max_merge = int([1, 2][int(r2.integers(2))])
        idt = [np.int64, np.int64, np.int32, np.uint16, np.uint32, np.uint64, np.int16][int(r2.integers(7))]
        frames = []
        for ch in chunks:
            rows = [(kk[0], kk[1], v, sc) for kk, v, sc in ch]
            df = pd.DataFrame(rows, columns=["bin1_id", "bin2_id", "count", "score"]).astype(
                {"bin1_id": idt, "bin2_id": idt, "count": np.float64 if float_counts else np.int64,
                 "score": np.float64})
            if ensure_sorted:
                df = df.iloc[r2.permutation(len(df))].reset_index(drop=True)
            else:
                df = df.sort_values(["bin1_id", "bin2_id"]).reset_index(drop=True)
            if not two_cols:
                df = df.drop(columns=["score"])
            frames.append(df)
        desc = {"bt": bt, "symm": symm, "chunks": [f.values.tolist() for f in frames][:14], "mergebuf": mergebuf,
                "max_merge": max_merge, "ensure_sorted": ensure_sorted, "two_cols": two_cols,
                "float_counts": float_counts, "dup_in_chunk": dup_in_chunk, "id_dtype": np.dtype(idt).name}
        d = ctx.newdir()
        out = os.path.join(d, "out.cool")
        with ctx.case(cid, desc, exc_key=exc_key(frames, max_merge, mergebuf, total)) as c:
            c.feature(f"mode:{'symm' if symm else 'square'}",
                      "merge:two-pass" if nck > max_merge > 0 else "merge:single-pass", f"family:{fam}")
            if any(len(f) == 0 for f in frames):
                c.feature("chunks:empty")
            if frames and all(len(f) == 0 for f in frames):
                c.feature("chunks:all-empty")
            if any(len(v) > 1 for v in assign.values()):
                c.feature("chunks:repeat-pixel")
            if mergebuf == 1:
                c.feature("mergebuf:1")
            c.feature(f"input-id-dtype:{np.dtype(idt).name}")
            if "weight" in bins.columns:
                c.feature("bins:extra-column-with-NaN" + (":variable-width" if gen.bt_fixed_width(bt) is None else ""))
            if any(v == 0 for v in total.values()):
                c.feature("pixels:all-records-zero")
            if ensure_sorted:
                c.feature("ensure_sorted")
            if nck in (2, 3) and max_merge < nck:
                c.feature("maxmerge:below-chunk-count:2-3-chunks")
            if total and min(kk[0] for kk in total) > 0 and mergebuf <= 2:
                c.feature("epoch:empty-row-with-tiny-buffer")
            kw = dict(ordered=False, symmetric_upper=symm, mergebuf=mergebuf, max_merge=max_merge,
                      ensure_sorted=ensure_sorted, columns=["count", "score"] if two_cols else None)
            tdir = None
            if x % 5 == 4:
                tdir = ctx.newdir()                      # temporary files go to another directory
                kw["temp_dir"] = tdir
                c.feature("option:temp_dir")
            if float_counts:
                kw["dtypes"] = {"count": np.float64}
                c.feature("counts:float-fractional")
            meta = None
            if x % 3 == 1:
                meta = {"sample": f"s{k}", "nested": {"passes": [1, 2, 3]}, "note": "caf\u00e9"}
                kw["metadata"] = meta
                kw["assembly"] = "asm" + str(k)
                c.feature("option:metadata+assembly")
            if dup_in_chunk:
                kw["dupcheck"] = False
                c.feature("chunks:repeat-pixel-within-chunk(dupcheck=False)")
            if not symm:
                kw["triucheck"] = False
            _AUDIT["paths"].clear()
            _AUDIT["on"] = True
            try:
                cooler.create_cooler(out, bins, iter(frames), **kw)
            finally:
                _AUDIT["on"] = False
            keys_got, cols = read_pixels_raw(out, "/", ("count", "score"))
            want_keys = sorted(total)
            if c.check(keys_got == want_keys, "unordered-pixel-set-differs",
                       "pixel set of the unordered-ingest result != fold of all records",
                       lambda: {"got": keys_got[:30], "want": want_keys[:30]}):
                c.check(cols["count"].tolist() == [total[kk] for kk in want_keys], "unordered-counts-differ",
                        "aggregated counts differ from the in-memory fold",
                        lambda: {"got": cols["count"].tolist()[:30], "want": [total[kk] for kk in want_keys][:30]})
                if two_cols:
                    c.check(cols["score"].tolist() == [total_sc[kk] for kk in want_keys], "unordered-extra-column-differs",
                            "aggregated extra column differs from the in-memory fold")
            if meta is not None:
                inf = cooler.Cooler(out).info
                c.check(inf.get("metadata") == meta and inf.get("genome-assembly") == "asm" + str(k),
                        "metadata-or-assembly-lost:" + ("two-pass" if nck > max_merge > 0 else "single-pass"),
                        f"info of the result: metadata={inf.get('metadata')!r}, genome-assembly={inf.get('genome-assembly')!r}; "
                        f"given {meta!r} / asm{k}")
            # temp files: none created by this execution may survive; directory holds only the output
            import gc
            gc.collect()
            left = [p for p in _AUDIT["paths"] if os.path.exists(p)]
            c.check(not left, "temp-file-outlives-success", f"temporary file(s) left after success: {left}")
            c.check(sorted(os.listdir(d)) == ["out.cool"], "temp-file-outlives-success",
                    f"output directory contains {sorted(os.listdir(d))}")
            if tdir is not None:
                c.check(os.listdir(tdir) == [], "temp-file-outlives-success", f"temp_dir still contains {os.listdir(tdir)}")
                c.check(all(p.startswith(tdir) for p in _AUDIT["paths"]), "temp_dir-option-ignored",
                        f"temporary files were not created under temp_dir: {_AUDIT['paths']}")
            c.feature("tempfiles:observed-by-audit-hook" if _AUDIT["paths"] else "tempfiles:none-observed")
            if x == 0 and total and not c.failed:
                # history: the cooler is re-chunked IN PLACE - a lazy iterator over its own pixels is ingested into the
                # same path with mode "w" (the external sort touches the output only after the input is exhausted)
                src = cooler.Cooler(out)
                step = max(1, len(total) // 3)

                def lazy():
                    for lo in range(0, len(total), step):
                        yield src.pixels()[lo:lo + step]
                kw2 = {k_: v_ for k_, v_ in kw.items() if k_ not in ("temp_dir", "metadata", "assembly")}
                cooler.create_cooler(out, bins, lazy(), mode="w", **kw2)
                keys2, cols2 = read_pixels_raw(out, "/", ("count",))
                c.feature("history:re-chunked-in-place-from-lazy-iterator")
                c.check(keys2 == want_keys and cols2["count"].tolist() == [total[kk] for kk in want_keys],
                        "in-place-reingest-differs", "re-ingesting a cooler into its own path from a lazy iterator over its "
                        "pixels does not reproduce it", lambda: {"got": keys2[:20], "want": want_keys[:20]})
            if nck >= 2 and total:
                c.nontrivial(repr(bt), repr(desc["chunks"]), mergebuf, max_merge, symm)
            ctx.sample({"chunks": len(frames), "chunk_sizes": [len(f) for f in frames], "mergebuf": mergebuf,
                        "max_merge": max_merge, "nnz": len(total), "symm": symm}, limit=5)


def exc_key(frames, max_merge, mergebuf, total):
    nck = len(frames)

    def f(e, cooler_fr):
        name = type(e).__name__
        if name == "IndexError" and nck in (2, 3) and 0 < max_merge < nck:
            return "exc:two-pass-merge-with-2-or-3-chunks"
        if name == "ValueError" and "No objects to concatenate" in str(e):
            if not total:
                return "exc:merge-epoch-without-records:all-chunks-empty"
            return "exc:merge-epoch-without-records:empty-rows"
        return None
    return f
