"""C15 File-level operations preserve content and touch nothing else."""
from __future__ import annotations

import os

import h5py
import numpy as np

from .. import gen, h5state, probes
from ..build import make_cooler

RULE = ("an inode-like FileModel (names -> objects -> content digest; hard link = second name of an object, soft/external "
        "link = name -> path resolved at read time) is replayed alongside random histories (3-10 steps) over two files "
        "from {create(mode a|w) at /, /a, /b, /g/x, /g/y; cp, mv, ln hard, ln -s, external link, cp --overwrite across "
        "files; re-create at an occupied path; cp onto an occupied path (must raise and change nothing)} through "
        "cooler.fileops and the CLI (cooler cp|mv|ln|ls), URIs with and without leading slash; after EVERY step: "
        "listing == model names, every path's raw digest == model content, hard links share the HDF5 object address and "
        "copies do not, is_cooler over model paths / foreign paths / dataset paths / missing group / missing file / "
        "non-HDF5 file, foreign attributes-groups-datasets unchanged. Non-trivial: history with >=1 cp/mv/ln; distinct = "
        "history")
ASSUMPTIONS = ["histories that would dangle a link, copy a subtree containing a soft link, or nest a collection under a "
               "path that is later overwritten are not generated; the root group is only a creation / cross-file copy "
               "destination; both files are addressed by one canonical path string"]
MIN_NONTRIVIAL = {"quick": 100, "thorough": 1000}
REQUIRED_FEATURES = ["op:create-a", "op:create-w", "op:recreate-occupied", "op:cp-same-file", "op:cp-cross-file", "op:mv",
                     "op:ln-hard", "op:ln-soft", "op:ln-external", "op:cp-onto-occupied", "op:cp-overwrite",
                     "via:cli", "via:api", "uri:no-leading-slash", "is_cooler:missing-group", "is_cooler:missing-file",
                     "is_cooler:non-hdf5", "is_cooler:dataset-path", "op:cp-to-root", "op:mv-onto-occupied",
                     "op:ln-onto-occupied", "op:mv-spelling", "op:samefile-overwrite", "is_cooler:dangling-link", "op:mv-cross-file", "wholefile:cp", "wholefile:mv", "op:create-w:unordered-two-pass",
                     "layout:second-file-behind-symlinked-directory"]

PATHS = ["/a", "/b", "/g/x", "/g/y", "/h", "/k/deep/z", "/a_old", "/g/x2"]      # incl. names that extend another name


def plan(tier, seed):
    n = 16 if tier == "quick" else 48
    per = 25 if tier == "quick" else 150
    return [{"kind": "hist", "sub": i, "cases": per} for i in range(n)] + \
           [{"kind": "wholefile", "sub": 800 + i, "cases": 8 if tier == "quick" else 60} for i in range(1 if tier == "quick" else 3)]


def run(ctx, shard):
    probes.activate(ctx)
    if shard["kind"] == "wholefile":
        for i in range(shard["cases"]):
            cid = f"wf:{shard['sub']}:{i}"
            if ctx.want(cid):
                whole_file(ctx, cid, ctx.rng("wf", shard["sub"], i), i)
        return
    rng0 = ctx.rng("plan", shard["sub"])
    for i in range(shard["cases"]):
        seedk = int(rng0.integers(2**31))
        rng = ctx.rng("case", shard["sub"], i, seedk)
        cid = f"h:{shard['sub']}:{i}"
        if ctx.want(cid):
            one_history(ctx, cid, rng)


class Model:
    def __init__(self, files):
        self.files = files
        self.names = {f: {} for f in files}     # file -> {path: ("obj", id) | ("soft", path) | ("ext", file, path)}
        self.content = {}                       # obj id -> digest
        self.next = 0
        self.exists = {f: False for f in files}
        self.foreign = {f: False for f in files}

    def new_obj(self, digest):
        self.next += 1
        self.content[self.next] = digest
        return self.next

    def resolve(self, f, p, depth=0):
        """-> obj id or None"""
        e = self.names[f].get(p)
        if e is None or depth > 5:
            return None
        if e[0] == "obj":
            return e[1]
        if e[0] == "soft":
            return self.resolve(f, e[1], depth + 1)
        return self.resolve(e[1], e[2], depth + 1)

    def link_targets(self):
        t = set()
        for f, nm in self.names.items():
            for p, e in nm.items():
                if e[0] == "soft":
                    t.add((f, e[1]))
                elif e[0] == "ext":
                    t.add((e[1], e[2]))
        return t

    def occupied(self, f, p):
        """p is a name, or an ancestor/descendant of a name (would nest)."""
        for q in self.names[f]:
            if q == p or q.startswith(p.rstrip("/") + "/") or (p.startswith(q.rstrip("/") + "/") and q != "/"):
                return True
        return False


def digest(path, grp):
    with h5py.File(path, "r") as f:
        return h5state.content_digest(f[grp], skip_attrs=("lab",))


def add_foreign(path):
    with h5py.File(path, "r+") as f:
        if "foreign" not in f:
            f.attrs["lab"] = "unrelated"
            g = f.create_group("foreign")
            g.create_dataset("d", data=np.arange(9))
            g.attrs["note"] = "keep"
            f.create_dataset("loose", data=np.arange(4.0))


def foreign_state(path):
    with h5py.File(path, "r") as f:
        return {"lab": f.attrs.get("lab"), "d": f["foreign/d"][:].tolist() if "foreign/d" in f else None,
                "note": f["foreign"].attrs.get("note") if "foreign" in f else None,
                "loose": f["loose"][:].tolist() if "loose" in f else None}


def uri(rng, f, p, c=None):
    if p != "/" and rng.random() < 0.3:
        if c is not None:
            c.feature("uri:no-leading-slash")
        return f + "::" + p.lstrip("/")
    if p == "/" and rng.random() < 0.5:
        return f
    return f + "::" + p


def one_history(ctx, cid, rng):
    import cooler
    from click.testing import CliRunner
    from cooler import fileops
    from cooler.cli import cli

    d = ctx.newdir()
    files = [os.path.join(d, "A.cool"), os.path.join(d, "B.cool")]
    symdir = bool(rng.random() < 0.3)
    if symdir:
        # the second file lives in a directory that is reached through a symbolic link at another depth of the tree
        os.makedirs(os.path.join(d, "store", "deep", "er"))
        os.symlink(os.path.join(d, "store", "deep", "er"), os.path.join(d, "out"))
        files[1] = os.path.join(d, "out", "B.cool")
    M = Model(files)
    bt = gen.gen_bt(rng, None, max_chroms=2, max_bins=6)
    n = gen.bt_nbins(bt)
    hist = []
    runner = CliRunner()
    nsteps = int(rng.integers(3, 11))
    with ctx.case(cid, {"history": hist}) as c:
        changed = False
        if symdir:
            c.feature("layout:second-file-behind-symlinked-directory")
        for step in range(nsteps + 2):
            op = ["create", "create", "cp", "mv", "ln", "lns", "ext", "recreate", "cp_occupied", "cp_overwrite", "create_w",
                  "cp_root", "mv_occupied", "ln_occupied", "mv_spelling", "samefile_overwrite", "mv_cross"][int(rng.integers(17))] \
                if step >= 2 else "create"
            f = files[int(rng.integers(2))] if step >= 2 else files[step]
            via = "cli" if rng.random() < 0.35 else "api"
            live = [(ff, p) for ff in files for p in M.names[ff] if M.resolve(ff, p) is not None]
            srcs = [(ff, p) for ff, p in live if M.names[ff][p][0] == "obj" and p != "/"]
            rec = {"op": op, "via": via}
            try:
                if op in ("create", "create_w", "recreate"):
                    mode = "w" if op == "create_w" else "a"
                    if op == "recreate":
                        cands = [(ff, p) for ff, p in live if M.names[ff][p][0] == "obj" and (ff, p) not in M.link_targets()
                                 or M.names[ff][p][0] == "obj"]
                        if not cands:
                            continue
                        f, p = cands[int(rng.integers(len(cands)))]
                    else:
                        p = (["/"] + PATHS)[int(rng.integers(len(PATHS) + 1))]
                        if mode == "a" and M.occupied(f, p) and p not in M.names[f]:
                            continue
                        if mode == "a" and p in M.names[f]:
                            if M.names[f][p][0] != "obj":
                                continue      # creating through a link name: not generated
                            op = rec["op"] = "recreate"
                        if mode == "w" and any(e[0] == "ext" and e[1] == f for ff in files for e in M.names[ff].values()):
                            continue          # would dangle an external link
                        if mode == "a" and p == "/" and not M.exists[f]:
                            pass
                    P = gen.gen_pixels(rng, n, True, "sparse70") or {(0, 0): 1}
                    P = {k: v + step for k, v in P.items()}
                    u = uri(rng, f, p, c)
                    bt_k = [[f"{nm}.{step}", e] for nm, e in bt] if rng.random() < 0.5 else bt   # own chromosome names
                    if mode == "w" and len(P) >= 3 and rng.random() < 0.5:
                        # write mode through the unordered (two-pass, recursive merge) creation path
                        import cooler
                        dfp = gen.pixels_frame(P, None)
                        chs = [dfp.iloc[i_::4] for i_ in range(4)]
                        cooler.create_cooler(u, gen.bt_frame(bt_k), iter([ch_ for ch_ in chs if len(ch_)]), ordered=False,
                                             max_merge=2, mergebuf=int([1, 10**6][int(rng.integers(2))]), mode="w")
                        c.feature("op:create-w:unordered-two-pass")
                    else:
                        make_cooler(u, bt_k, P, mode=mode)
                    if rng.random() < 0.3:
                        from .c14 import to_int_encoding
                        to_int_encoding(f, p)          # chromosome ids stored as plain integers (many-contig layout)
                        c.feature("encoding:int")
                    if mode == "w":
                        M.names[f] = {}
                        M.foreign[f] = False
                        c.feature("op:create-w")
                    else:
                        c.feature("op:recreate-occupied" if op == "recreate" else "op:create-a")
                    M.exists[f] = True
                    M.names[f][p] = ("obj", M.new_obj(digest(f, p)))
                    rec.update(uri=rel(u), mode=mode)
                    if not M.foreign[f]:
                        add_foreign(f)
                        M.foreign[f] = foreign_state(f)
                elif op in ("cp", "cp_root", "cp_overwrite", "cp_occupied"):
                    if not srcs:
                        continue
                    sf, sp = srcs[int(rng.integers(len(srcs)))]
                    if op == "cp_occupied":
                        cands = [(ff, p) for ff, p in live if (ff, p) != (sf, sp) and (p != "/" or ff != sf)]
                        if not cands:
                            continue
                        df_, dp = cands[int(rng.integers(len(cands)))]
                    elif op == "cp_overwrite":
                        df_ = [x for x in files if x != sf][0]
                        dp = PATHS[int(rng.integers(len(PATHS)))]
                        if any(e[0] == "ext" and e[1] == df_ for ff in files for e in M.names[ff].values()):
                            continue
                    elif op == "cp_root":
                        df_ = [x for x in files if x != sf][0]
                        dp = "/"
                        if "/" in M.names[df_] or not M.exists[df_]:
                            continue
                    else:
                        df_ = files[int(rng.integers(2))]
                        dp = PATHS[int(rng.integers(len(PATHS)))]
                        if M.occupied(df_, dp):
                            continue
                    if not M.exists[df_] and op not in ("cp_overwrite",) and df_ != sf:
                        pass
                    su, du = uri(rng, sf, sp, c), uri(rng, df_, dp, c)
                    rec.update(src=rel(su), dst=rel(du))
                    before = {ff: (foreign_state(ff) if M.exists[ff] else None) for ff in files}
                    raised = None
                    try:
                        if via == "cli":
                            r = runner.invoke(cli, ["cp", su, du] + (["--overwrite"] if op == "cp_overwrite" else []))
                            if r.exit_code != 0:
                                raised = type(r.exception).__name__
                        else:
                            fileops.cp(su, du, overwrite=(op == "cp_overwrite"))
                    except Exception as e:  # noqa
                        raised = type(e).__name__
                    if op == "cp_occupied":
                        c.feature("op:cp-onto-occupied" + (":root-of-other-file" if dp == "/" else ""))
                        rec["raised"] = raised
                        if raised is None:
                            # an implementation may also replace the destination: then it must read as the source
                            # (the property leaves the choice open; what it forbids is any OTHER change)
                            M.names[df_][dp] = ("obj", M.new_obj(M.content[M.resolve(sf, sp)]))
                            c.feature("op:cp-onto-occupied:replaced")
                        else:
                            c.feature("op:cp-onto-occupied:refused")
                    else:
                        if raised:
                            c.fail(f"cp-failed:{op}:{raised}", f"cp {rel(su)} -> {rel(du)} raised {raised}", {"history": hist})
                            continue
                        if op == "cp_overwrite":
                            M.names[df_] = {}
                            M.foreign[df_] = False
                            c.feature("op:cp-overwrite")
                        elif op == "cp_root":
                            c.feature("op:cp-to-root")
                        else:
                            c.feature("op:cp-same-file" if sf == df_ else "op:cp-cross-file")
                        M.exists[df_] = True
                        M.names[df_][dp] = ("obj", M.new_obj(M.content[M.resolve(sf, sp)]))
                        if not M.foreign[df_]:
                            add_foreign(df_)
                            M.foreign[df_] = foreign_state(df_)
                        changed = True
                elif op in ("mv_occupied", "ln_occupied"):
                    # mv / ln onto a path that already holds something must raise and change NOTHING
                    cands = [(ff, p) for ff, p in srcs if (ff, p) not in M.link_targets()]
                    if not cands:
                        continue
                    sf, sp = cands[int(rng.integers(len(cands)))]
                    occ = [p for p in M.names[sf] if p != sp and p != "/"] + ["/foreign"]
                    dp = occ[int(rng.integers(len(occ)))]
                    su, du = uri(rng, sf, sp, c), uri(rng, sf, dp, c)
                    raised = None
                    try:
                        if via == "cli":
                            r = runner.invoke(cli, ["mv" if op == "mv_occupied" else "ln", su, du])
                            if r.exit_code != 0:
                                raised = type(r.exception).__name__
                        elif op == "mv_occupied":
                            fileops.mv(su, du)
                        else:
                            fileops.ln(su, du)
                    except Exception as e:  # noqa
                        raised = type(e).__name__
                    c.feature(f"op:{op.replace('_', '-onto-')}")
                    rec.update(src=rel(su), dst=rel(du), raised=raised)
                    if raised is None and dp != "/foreign":
                        # not refused: then it must behave like the operation onto a free path (see cp above)
                        if op == "mv_occupied":
                            M.names[sf][dp] = M.names[sf].pop(sp)
                        else:
                            M.names[sf][dp] = ("obj", M.resolve(sf, sp))
                    elif raised is None:
                        c.fail(f"{op}-replaced-foreign-group", f"{op[:2]} {rel(su)} onto the unrelated group /foreign did not raise")
                elif op in ("mv_spelling", "samefile_overwrite"):
                    # two requests a file-level tool may refuse; whatever it answers, nothing else may change:
                    #  mv_spelling         mv within one file whose two URIs spell the file path differently
                    #  samefile_overwrite  cp within one file with overwrite=True ("truncate the destination FILE")
                    cands = [(ff, p) for ff, p in srcs if (ff, p) not in M.link_targets()]
                    if not cands:
                        continue
                    sf, sp = cands[int(rng.integers(len(cands)))]
                    dp = PATHS[int(rng.integers(len(PATHS)))]
                    if M.occupied(sf, dp):
                        continue
                    su, du = uri(rng, sf, sp, c), uri(rng, sf, dp, c)
                    if op == "mv_spelling":
                        dn, bn = os.path.split(sf)
                        alt = [os.path.join(dn, ".", bn), os.path.join(dn, "..", os.path.basename(dn), bn),
                               os.path.join(dn, "link_" + bn)][int(rng.integers(3))]
                        if "link_" in alt and not os.path.lexists(alt):
                            os.symlink(sf, alt)
                        du = alt + "::" + dp
                    raised = None
                    with h5py.File(sf, "r") as h_:
                        addr_before = h5py.h5o.get_info(h_[sp].id).addr
                    try:
                        if via == "cli":
                            r = runner.invoke(cli, ["mv", su, du] if op == "mv_spelling" else ["cp", "-w", su, du])
                            if r.exit_code != 0:
                                raised = type(r.exception).__name__
                        elif op == "mv_spelling":
                            fileops.mv(su, du)
                        else:
                            fileops.cp(su, du, overwrite=True)
                    except Exception as e:  # noqa
                        raised = type(e).__name__
                    rec.update(src=rel(su), dst=os.path.relpath(du, d) if op == "mv_spelling" else rel(du), raised=raised)
                    c.feature(f"op:{op.replace('_', '-')}", f"op:{op.replace('_', '-')}:{'refused' if raised else 'answered'}")
                    if raised is None:
                        if op == "mv_spelling":
                            # answered: then it is a move - by renaming the link (the object keeps its identity, other
                            # hard-link names still share it) or by copy-then-delete (a new object); observed, not assumed
                            with h5py.File(sf, "r") as h_:
                                same = dp in h_ and h5py.h5o.get_info(h_[dp].id).addr == addr_before
                            if same:
                                M.names[sf][dp] = M.names[sf].pop(sp)
                            else:
                                content = M.content[M.resolve(sf, sp)]
                                M.names[sf].pop(sp)
                                M.names[sf][dp] = ("obj", M.new_obj(content))
                        else:
                            M.names[sf][dp] = ("obj", M.new_obj(M.content[M.resolve(sf, sp)]))   # answered: then a copy
                        changed = True
                elif op == "mv_cross":
                    # a move to the OTHER file: the destination reads as the source did and the source name is gone
                    # (F32: it used to be a silent copy).  A refusal that changes nothing is tolerated.
                    cands = [(ff, p) for ff, p in srcs if (ff, p) not in M.link_targets() or step % 2]
                    if not cands:
                        continue
                    sf, sp = cands[int(rng.integers(len(cands)))]
                    df_ = [x for x in files if x != sf][0]
                    dp = PATHS[int(rng.integers(len(PATHS)))]
                    if M.occupied(df_, dp):
                        continue
                    su, du = uri(rng, sf, sp, c), uri(rng, df_, dp, c)
                    rec.update(src=rel(su), dst=rel(du))
                    raised = None
                    try:
                        if via == "cli":
                            r = runner.invoke(cli, ["mv", su, du])
                            if r.exit_code != 0:
                                raised = type(r.exception).__name__
                        else:
                            fileops.mv(su, du)
                    except Exception as e:  # noqa
                        raised = type(e).__name__
                    rec["raised"] = raised
                    c.feature("op:mv-cross-file" + (":refused" if raised else ""))
                    if raised is None:
                        content = M.content[M.resolve(sf, sp)]
                        M.names[sf].pop(sp)
                        M.exists[df_] = True
                        M.names[df_][dp] = ("obj", M.new_obj(content))
                        if not M.foreign[df_]:
                            add_foreign(df_)
                            M.foreign[df_] = foreign_state(df_)
                        changed = True
                elif op == "mv":
                    # (moving the target of a soft / external link leaves that link dangling: a name that resolves
                    #  to nothing - it must then simply not be a collection, for the listing and the recognition test)
                    cands = [(ff, p) for ff, p in srcs if (ff, p) not in M.link_targets() or step % 2]
                    if not cands:
                        continue
                    sf, sp = cands[int(rng.integers(len(cands)))]
                    dp = PATHS[int(rng.integers(len(PATHS)))]
                    if M.occupied(sf, dp):
                        continue
                    su, du = uri(rng, sf, sp, c), uri(rng, sf, dp, c)
                    if via == "cli":
                        r = runner.invoke(cli, ["mv", su, du])
                        if r.exit_code != 0:
                            raise r.exception
                    else:
                        fileops.mv(su, du)
                    M.names[sf][dp] = M.names[sf].pop(sp)
                    rec.update(src=rel(su), dst=rel(du))
                    c.feature("op:mv")
                    changed = True
                elif op in ("ln", "lns"):
                    if not srcs:
                        continue
                    sf, sp = srcs[int(rng.integers(len(srcs)))]
                    dp = PATHS[int(rng.integers(len(PATHS)))]
                    if M.occupied(sf, dp):
                        continue
                    su, du = uri(rng, sf, sp, c), uri(rng, sf, dp, c)
                    soft = op == "lns"
                    if via == "cli":
                        r = runner.invoke(cli, ["ln", su, du] + (["-s"] if soft else []))
                        if r.exit_code != 0:
                            raise r.exception
                    else:
                        fileops.ln(su, du, soft=soft)
                    M.names[sf][dp] = ("soft", sp) if soft else ("obj", M.resolve(sf, sp))
                    rec.update(src=rel(su), dst=rel(du))
                    c.feature("op:ln-soft" if soft else "op:ln-hard")
                    changed = True
                elif op == "ext":
                    if not srcs:
                        continue
                    sf, sp = srcs[int(rng.integers(len(srcs)))]
                    df_ = [x for x in files if x != sf][0]
                    dp = PATHS[int(rng.integers(len(PATHS)))]
                    if not M.exists[df_] or M.occupied(df_, dp):
                        continue
                    su, du = uri(rng, sf, sp, c), uri(rng, df_, dp, c)
                    if via == "cli":
                        r = runner.invoke(cli, ["ln", "-s", su, du])
                        if r.exit_code != 0:
                            raise r.exception
                    else:
                        fileops.ln(su, du, soft=True)
                    M.names[df_][dp] = ("ext", sf, sp)
                    rec.update(src=rel(su), dst=rel(du))
                    c.feature("op:ln-external")
                    changed = True
            finally:
                pass
            hist.append(rec)
            c.feature(f"via:{via}")
            if not verify(c, M, files, fileops, runner, cli, rng, hist):
                break
        if changed:
            c.nontrivial(repr(hist))
        ctx.sample({"history": hist}, limit=4)


def rel(u):
    f, _, g = u.partition("::")
    return os.path.basename(f) + ("::" + g if g else "")


def verify(c, M, files, fileops, runner, cli, rng, hist):
    ok = True
    for f in files:
        if not M.exists[f]:
            c.feature("is_cooler:missing-file")
            try:
                r = fileops.is_cooler(f + "::/a")
            except Exception as e:  # noqa
                r = f"raises {type(e).__name__}"
            ok &= c.check(r is False, "is_cooler-missing-file", f"is_cooler on a missing file -> {r}")
            continue
        want = sorted(p for p in M.names[f] if M.resolve(f, p) is not None)
        got = fileops.list_coolers(f)
        c.ctx.oracle_evals += 1
        if sorted(got) != want:
            kinds = {M.names[f][p][0] for p in set(want) ^ set(got) if p in M.names[f]}
            key = "listing-differs:" + ("external-link" if "ext" in kinds else "soft-link" if "soft" in kinds else "plain")
            c.fail(key, f"list_coolers({os.path.basename(f)}) = {got}, the file holds {want}", {"history": hist})
            ok = False
        if rng.random() < 0.3:
            r = runner.invoke(cli, ["ls", f])
            lines = sorted(ln.split("::")[1] for ln in r.output.strip().split("\n") if "::" in ln)
            c.check(r.exit_code == 0 and lines == sorted(got), "cli-ls-differs", f"`cooler ls` lists {lines}, API lists {got}")
        addr = {}
        with h5py.File(f, "r") as h:
            for p in want:
                oid = M.resolve(f, p)
                dg = h5state.content_digest(h[p], skip_attrs=("lab",))
                if dg != M.content[oid]:
                    c.fail(f"content-differs:{M.names[f][p][0]}", f"{os.path.basename(f)}::{p} does not read as the model says "
                           f"after {hist[-1]}", {"history": hist})
                    ok = False
                if M.names[f][p][0] == "obj":
                    addr.setdefault(oid, set()).add(h5py.h5o.get_info(h[p].id).addr)
            # one address per object id, different objects -> different addresses
            for oid, a in addr.items():
                c.check(len(a) == 1, "hard-links-do-not-share-object", "names of one object resolve to different HDF5 objects")
            alla = [next(iter(a)) for a in addr.values() if len(a) == 1]
            c.check(len(set(alla)) == len(alla), "copies-share-object", "a copy shares its HDF5 object with its source")
        for p in [q for q in M.names[f] if M.resolve(f, q) is None]:
            c.feature("is_cooler:dangling-link")
            try:
                r = fileops.is_cooler(f + "::" + p)
            except Exception as e:  # noqa
                r = f"raises {type(e).__name__}"
            ok &= c.check(r is False, "is_cooler-dangling-link", f"is_cooler({os.path.basename(f)}::{p}) for a link whose "
                          f"target no longer exists -> {r}", {"history": hist})
        for p in want:
            if rng.random() < 0.5:
                # the ordinary interface reads the collection's own tables, wherever it sits
                import cooler
                with h5py.File(f, "r") as h:
                    nm_ = [x.decode() for x in h[p]["chroms/name"][:]]
                    lab = [nm_[i] for i in h[p]["bins/chrom"][:]]
                    npx = int(h[p]["pixels/count"].shape[0])
                clr = cooler.Cooler(f + "::" + p)
                got_lab = clr.bins()[:]["chrom"].astype(str).tolist()
                pj = clr.pixels(join=True)[:]
                ok &= c.check(got_lab == lab and clr.chromnames == nm_ and len(pj) == npx
                              and (npx == 0 or pj["chrom1"].astype(str).iloc[0] in nm_),
                              f"api-read-differs:bin-chromosome-labels:{M.names[f][p][0]}",
                              f"Cooler({os.path.basename(f)}::{p}).bins() carries chromosome labels {got_lab[:4]}..., the "
                              f"collection's own tables say {lab[:4]}...", {"history": hist})
        for p in want:
            r = fileops.is_cooler(f + "::" + p)
            ok &= c.check(r is True, "is_cooler-false-for-collection", f"is_cooler({os.path.basename(f)}::{p}) = {r}")
        probes_ = [("/foreign", "foreign"), ("/foreign/d", "dataset-path"), ("/loose", "dataset-path"),
                   ("/definitely/not/here", "missing-group"), ("/nope", "missing-group")]
        if want and want[0] != "/":
            probes_.append((want[0] + "/pixels", "foreign"))
            probes_.append((want[0] + "/pixels/bin1_id", "dataset-path"))
        for p, kind in probes_:
            if p in M.names[f]:
                continue
            c.feature(f"is_cooler:{kind}")
            try:
                r = fileops.is_cooler(f + "::" + p)
            except Exception as e:  # noqa
                r = f"raises {type(e).__name__}"
            ok &= c.check(r is False, f"is_cooler-{kind}", f"is_cooler({os.path.basename(f)}::{p}) [{kind}] -> {r}")
        if M.foreign[f]:
            cur = foreign_state(f)
            ok &= c.check(cur == M.foreign[f], "foreign-object-changed",
                          f"unrelated attributes/groups/datasets of {os.path.basename(f)} changed after {hist[-1]}",
                          {"before": M.foreign[f], "after": cur})
    txt = os.path.join(os.path.dirname(files[0]), "plain.txt")
    if not os.path.exists(txt):
        with open(txt, "w") as fh:
            fh.write("not hdf5")
    c.feature("is_cooler:non-hdf5")
    try:
        r = fileops.is_cooler(txt)
    except Exception as e:  # noqa
        r = f"raises {type(e).__name__}"
    c.check(r is False, "is_cooler-non-hdf5", f"is_cooler on a non-HDF5 file -> {r}")
    return ok


def whole_file(ctx, cid, rng, idx):
    """cp / mv of a ROOT collection onto the free ROOT of another, existing file that holds other collections at
    nested paths (both URIs plain file names, `f::` or `f::/`): the destination root reads as the source, everything
    else in the destination file stays, the source stays (cp) or is gone (mv)."""
    import cooler
    from click.testing import CliRunner
    from cooler import fileops
    from cooler.cli import cli

    d = ctx.newdir()
    S, D = os.path.join(d, "S.cool"), os.path.join(d, "D.cool")
    bt = gen.gen_bt(rng, None, max_chroms=2, max_bins=6)
    n = gen.bt_nbins(bt)
    make_cooler(S, bt, gen.gen_pixels(rng, n, True, "sparse70") or {(0, 0): 2})
    keep = ["/keep/me", "/other"][: int(rng.integers(1, 3))]
    for j, kp in enumerate(keep):
        make_cooler(D + "::" + kp, bt, {(0, 0): 5 + j}, mode="a")
    with h5py.File(D, "r+") as f:
        f.create_group("notes").attrs["who"] = "me"
        f["notes"].create_dataset("v", data=np.arange(3))
    op = ["cp", "mv"][idx % 2]
    via = "cli" if rng.random() < 0.4 else "api"
    sp = lambda p_: [p_, p_ + "::", p_ + "::/"][int(rng.integers(3))]  # noqa
    su, du = sp(S), sp(D)
    with ctx.case(cid, {"op": op, "via": via, "src": rel(su), "dst": rel(du), "dest_holds": keep}) as c:
        c.feature(f"wholefile:{op}", "via:" + via)
        src_digest = digest(S, "/")
        a_ = cooler.Cooler(S)
        src_px, src_bins, src_info = a_.pixels()[:], a_.bins()[:], a_.info
        del a_
        kept = {kp: digest(D, kp) for kp in keep}
        raised = None
        try:
            if via == "cli":
                r = CliRunner().invoke(cli, [op, su, du])
                if r.exit_code != 0:
                    raised = type(r.exception).__name__
            else:
                getattr(fileops, op)(su, du)
        except Exception as e:  # noqa
            raised = type(e).__name__
        if raised:
            c.feature(f"wholefile:{op}:refused")
            c.check(sorted(fileops.list_coolers(D)) == sorted(keep) and all(digest(D, kp) == kept[kp] for kp in keep)
                    and digest(S, "/") == src_digest, "wholefile-refused-but-changed",
                    f"{op} {rel(su)} {rel(du)} raised {raised} and still changed a file")
        else:
            got = sorted(fileops.list_coolers(D))
            c.check(got == sorted(keep + ["/"]), "wholefile-destination-lost-collections",
                    f"after {op} {rel(su)} {rel(du)} the destination file lists {got}; it held {keep} and gains '/'")
            for kp in keep:
                if kp in got:
                    c.check(digest(D, kp) == kept[kp], "wholefile-neighbour-changed", f"{kp} of the destination file changed")
            with h5py.File(D, "r") as f:
                c.check("notes" in f and f["notes"].attrs.get("who") == "me" and f["notes/v"][:].tolist() == [0, 1, 2],
                        "wholefile-foreign-content-lost", "an unrelated group of the destination file is gone or changed")
            if "/" in got:
                b = cooler.Cooler(D)
                c.check(src_px.equals(b.pixels()[:]) and src_bins.equals(b.bins()[:]) and src_info == b.info,
                        "wholefile-root-not-a-copy", "destination root does not read as the source did")
            if op == "mv":
                c.check(not fileops.is_cooler(S), "wholefile-move-left-source", "the source root is still a cooler after mv")
            else:
                c.check(digest(S, "/") == src_digest, "wholefile-copy-changed-source", "cp changed its source")
        c.nontrivial("wholefile", op, via, rel(su), rel(du), repr(keep))
