"""C05 Each valid input record is counted once, in the pixel that contains it."""
from __future__ import annotations

import gzip
import os

import numpy as np
import pandas as pd

from .. import gen, model, probes
from ..build import read_pixels_raw

RULE = ("records generated with their intended fate attached (valid / unknown chromosome / out of range) and positions "
        "on every bin edge, edge+-1, 0, length-1, length, length+1, -1, in both triangle orientations, intra- and "
        "inter-chromosomal, zero/one-based, reflect/drop/none, sided extra fields, shuffled and re-chunked; driven "
        "through sanitize_records+aggregate_records (API), sanitize_pixels, `cooler cload pairs`, `cooler load -f "
        "bg2|coo` (plain and .gz) and the tabix loader (bgzip+index via pysam); oracle = ref_binning fold over the "
        "generated records (linear bin scan). Non-trivial: >= 2 valid records; distinct = (bins, records, options, path)")
ASSUMPTIONS = ["triangle orientation is by (chromosome rank, position), as documented",
               "tabix loader: a record whose FIRST anchor lies beyond its chromosome can never be fetched; 'counted "
               "nowhere' is accepted there, 'counted somewhere' is not; records with a negative first anchor are not "
               "written to tabix files (not representable in a well-formed index)"]
MIN_NONTRIVIAL = {"quick": 150, "thorough": 1500}
REQUIRED_FEATURES = ["history:second-bin-table-same-chromsizes-same-nbins", "path:api", "path:sanitize_pixels", "path:cli-cload-pairs", "path:cli-load-bg2", "path:cli-load-coo",
                     "path:tabix", "fate:out-of-range:pos=length", "fate:out-of-range:pos=-1", "fate:unknown-chrom",
                     "tril:reflect", "tril:drop", "tril:none", "one-based", "zero-based", "records:on-bin-edge",
                     "records:same-anchor", "sided-fields", "path:cli-cload-tabix", "option:square+copy-status-duplex",
                     "chroms:integer-ids(decode_chroms=False)"]


def plan(tier, seed):
    n = 16 if tier == "quick" else 48
    per = 40 if tier == "quick" else 400
    return [{"kind": "bin", "sub": i, "cases": per} for i in range(n)]


def run(ctx, shard):
    probes.activate(ctx)
    probes.probe_create_exit()
    rng0 = ctx.rng("plan", shard["sub"])
    paths = ["api", "api", "sanitize_pixels", "cli_pairs", "cli_bg2", "cli_coo", "tabix", "api_create"]
    for i in range(shard["cases"]):
        seedk = int(rng0.integers(2**31))
        rng = ctx.rng("case", shard["sub"], i, seedk)
        path = paths[(shard["sub"] + i) % len(paths)]
        cid = f"b:{shard['sub']}:{i}"
        if ctx.want(cid):
            one_case(ctx, cid, rng, path, shard["sub"] * 100 + i)


# ------------------------------------------------------------------ generation
def edge_positions(rng, edges, L):
    pts = set()
    for e in edges:
        for dlt in (-1, 0, 1):
            if 0 <= e + dlt < L:
                pts.add(e + dlt)
    pts.update({0, L - 1})
    pts = sorted(pts)
    return pts


def gen_records(rng, bt, nrec, bad_kind=None, with_unknown=True):
    """zero-based records [c1, p1, c2, p2, fate]; exactly one bad record when bad_kind is given."""
    recs = []
    chroms = [(c, e) for c, e in bt]
    for _ in range(nrec):
        (c1, e1), (c2, e2) = chroms[int(rng.integers(len(chroms)))], chroms[int(rng.integers(len(chroms)))]
        if rng.random() < 0.5:
            c2, e2 = c1, e1
        p1s, p2s = edge_positions(rng, e1, e1[-1]), edge_positions(rng, e2, e2[-1])
        p1 = p1s[int(rng.integers(len(p1s)))] if rng.random() < 0.7 else int(rng.integers(0, e1[-1]))
        p2 = p2s[int(rng.integers(len(p2s)))] if rng.random() < 0.7 else int(rng.integers(0, e2[-1]))
        if c1 == c2 and rng.random() < 0.15:
            p2 = p1
        recs.append([c1, p1, c2, p2, "valid"])
    if with_unknown:
        for _ in range(int(rng.integers(0, 4))):
            r = list(recs[int(rng.integers(len(recs)))]) if recs else [chroms[0][0], 0, chroms[0][0], 0, "valid"]
            side = int(rng.integers(2))
            r[0 if side == 0 else 2] = ["chrUnknown", "chrM_other", "!"][int(rng.integers(3))]
            if rng.random() < 0.35:
                r[1 if side == 0 else 3] = -1        # an unmapped mate as pairtools writes it: chrom "!", position 0 (one-based)
            r[4] = "unknown"
            at = int(rng.integers(len(recs) + 1))
            for _rep in range(int(rng.integers(1, 4))):      # runs of records with the same unlisted mate
                recs.insert(at, list(r))
    if bad_kind:
        c, e = chroms[int(rng.integers(len(chroms)))]
        L = e[-1]
        pos = {"pos=length": L, "pos=length+1": L + 1, "pos=-1": -1}[bad_kind]
        c_o, e_o = chroms[int(rng.integers(len(chroms)))]
        other = int(rng.integers(0, e_o[-1]))
        r = [c, pos, c_o, other, "bad"] if rng.random() < 0.5 else [c_o, other, c, pos, "bad"]
        recs.insert(int(rng.integers(len(recs) + 1)), r)
    return recs


def sibling_table(rng, bt):
    """Same chromosomes and lengths, same number of bins, one interior edge moved by 1 bp (None if impossible)."""
    cands = []
    for ci, (_, e) in enumerate(bt):
        for i in range(1, len(e) - 1):
            if e[i] - e[i - 1] >= 2:
                cands.append((ci, i, -1))
            if e[i + 1] - e[i] >= 2:
                cands.append((ci, i, +1))
    if not cands:
        return None
    ci, i, dlt = cands[int(rng.integers(len(cands)))]
    out = [[nm, list(e)] for nm, e in bt]
    out[ci][1][i] += dlt
    return out


def ref_binning(bt, recs, tril):
    """{(b1,b2): count} over the retained records; None if any record must be rejected."""
    rank = {c: i for i, (c, _) in enumerate(bt)}
    length = {c: e[-1] for c, e in bt}
    out = {}
    sides = {}
    for c1, p1, c2, p2, fate in recs:
        if c1 not in rank or c2 not in rank:
            continue
        if not (0 <= p1 < length[c1]) or not (0 <= p2 < length[c2]):
            return None, None
        is_tril = rank[c1] > rank[c2] or (c1 == c2 and p1 > p2)
        swapped = False
        if tril is not None and is_tril:
            if tril == "drop":
                continue
            c1, p1, c2, p2 = c2, p2, c1, p1
            swapped = True
        key = (model.bin_of(bt, c1, p1), model.bin_of(bt, c2, p2))
        out[key] = out.get(key, 0) + 1
        sides.setdefault(key, []).append(swapped)
    return out, sides


_EOL = ["\n"]


def write_lines(path, rows, gz=False, header=None):
    op = gzip.open if gz else open
    eol = _EOL[0]
    with op(path, "wt", newline="") as f:
        if header:
            f.write(header.replace("\n", eol))
        for r in rows:
            f.write("\t".join(str(x) for x in r) + eol)


def bins_bed(d, bt):
    bed = os.path.join(d, "bins.bed")
    gen.bt_frame(bt).to_csv(bed, sep="\t", header=False, index=False)
    return bed


# ------------------------------------------------------------------ one case
def one_case(ctx, cid, rng, path, idx):
    import cooler
    from cooler.create import BadInputError, aggregate_records, sanitize_pixels, sanitize_records

    fam = gen.BT_FAMILIES[idx % len(gen.BT_FAMILIES)]
    bt = gen.gen_bt(rng, fam, max_chroms=4, max_bins=20, widths=(1, 2, 3, 5, 10, 1000))
    if idx % 9 == 8:
        bt = gen.gen_giant_bt(rng)             # cumulative genome offsets exceed 2**31
        fam = "giant_variable"
    elif idx % 9 == 7:
        w_ = int([10**4, 10**6, 25 * 10**5][int(rng.integers(3))])
        bt = [[f"chr{j + 1}", gen.fixed_edges(int(rng.integers(1, 9)) * w_ + int(rng.integers(0, w_)) + 1, w_)]
              for j in range(int(rng.integers(1, 4)))]
        fam = "genomic_scale_fixed"
    if path in ("cli_pairs", "cli_bg2", "cli_coo", "tabix"):
        bt = [[c.replace(" ", "_"), e] for c, e in bt]
    n = gen.bt_nbins(bt)
    one_based = bool(rng.random() < 0.5)
    tril = ["reflect", "drop", None][int(rng.integers(3))]
    bad_kind = [None, None, None, "pos=length", "pos=length+1", "pos=-1"][int(rng.integers(6))]
    if path in ("sanitize_pixels", "cli_coo"):
        bad_kind = None
    nrec = int(rng.integers(2, 60))
    recs = gen_records(rng, bt, nrec, bad_kind)
    d = ctx.newdir()
    desc = {"path": path, "bt": bt, "one_based": one_based, "tril": tril, "bad_kind": bad_kind,
            "records": [r[:5] for r in recs][:80]}
    with ctx.case(cid, desc) as c:
        pname = {"cli_pairs": "cli-cload-pairs", "cli_bg2": "cli-load-bg2", "cli_coo": "cli-load-coo",
                 "api_create": "api"}.get(path, path)
        c.feature(f"path:{pname}", f"tril:{tril or 'none'}",
                  "one-based" if one_based else "zero-based", f"family:{fam}")
        if bad_kind:
            c.feature(f"fate:out-of-range:{bad_kind}")
        if any(r[4] == "unknown" for r in recs):
            c.feature("fate:unknown-chrom")
        if any(r[4] == "valid" and r[0] == r[2] and r[1] == r[3] for r in recs):
            c.feature("records:same-anchor")
        edges = {cname: set(e) for cname, e in bt}
        if any(r[4] == "valid" and (r[1] in edges[r[0]] or r[3] in edges[r[2]]) for r in recs):
            c.feature("records:on-bin-edge")
        shift = 1 if one_based else 0
        _EOL[0] = "\n"
        if path in ("cli_pairs", "cli_bg2", "cli_coo") and rng.random() < 0.15:
            _EOL[0] = "\r\n"                       # text written on another platform
            c.feature("text:crlf-line-endings")
        want, sides = ref_binning(bt, recs, tril)
        bins = gen.bt_frame(bt)
        nvalid = sum(1 for r in recs if r[4] == "valid")
        # ------------------------------------------------------------ API paths
        if path in ("api", "api_create"):
            df = pd.DataFrame([[r[0], r[1] + shift, r[2], r[3] + shift, k, 1000 + k] for k, r in enumerate(recs)],
                              columns=["chrom1", "pos1", "chrom2", "pos2", "x1", "x2"])
            c.feature("sided-fields")
            if rng.random() < 0.3 and len(df):
                df = df.set_axis([k_ % 4 for k_ in range(len(df))], axis=0)        # repeated row labels
                c.feature("input-frame:non-default-row-labels")
            kw = dict(schema="pairs", is_one_based=one_based, tril_action=tril, sided_fields=("chrom", "pos", "x"))
            if rng.random() < 0.3:
                # chromosomes already given as integer ids in bin-table order (documented: decode_chroms=False);
                # a negative id stands for a chromosome that is not listed
                rk = {cc: ii for ii, (cc, _) in enumerate(bt)}
                df["chrom1"] = [rk.get(x, -1) for x in df["chrom1"]]
                df["chrom2"] = [rk.get(x, -1) for x in df["chrom2"]]
                kw["decode_chroms"] = False
                c.feature("chroms:integer-ids(decode_chroms=False)")
            sanit = sanitize_records(bins, **kw)
            agg = aggregate_records(agg={"x1": "sum", "x2": "sum"})
            # order independence: original order, shuffled, re-chunked
            results = []
            raised = None
            for variant in ("asis", "shuffled", "chunked"):
                try:
                    if variant == "asis":
                        out = agg(sanit(df.copy()))
                    elif variant == "shuffled":
                        out = agg(sanit(df.iloc[rng.permutation(len(df))].reset_index(drop=True)))
                    else:
                        cuts = gen.random_cuts(rng, len(df), 5)
                        parts = [sanit(ch.copy()) for ch in gen.chunk_frames(df, cuts)]
                        parts = [p for p in parts if len(p)]
                        out = agg(pd.concat(parts)) if parts else agg(sanit(df.iloc[0:0].copy()))
                except BadInputError as e:
                    raised = str(e)[:100]
                    break
                results.append({(int(a), int(b)): (int(cn), int(s1), int(s2)) for a, b, cn, s1, s2 in
                                zip(out["bin1_id"], out["bin2_id"], out["count"], out["x1"], out["x2"])})
            if want is None:
                c.check(raised is not None, f"out-of-range-accepted:{bad_kind}:api",
                        f"a record with {bad_kind} was accepted and binned instead of rejected",
                        {"got": results[0] if results else None})
            else:
                if not c.check(raised is None, "valid-records-rejected:api", f"valid records rejected: {raised}"):
                    return
                got = {k: v[0] for k, v in results[0].items()}
                c.check(got == want, "pixel-counts-differ:api", "sanitize+aggregate pixel counts != reference binning",
                        lambda: {"got": sorted(got.items())[:30], "want": sorted(want.items())[:30]})
                c.check(all(r == results[0] for r in results[1:]), "depends-on-record-order:api",
                        "result depends on record order / chunking")
                c.check(sum(got.values()) == sum(want.values()), "total-differs:api", "total != number of retained records")
                # sided fields: x1/x2 swapped exactly on reflected records
                wx = {}
                for k, r in enumerate(recs):
                    if r[0] not in dict(bt) or r[2] not in dict(bt):
                        continue
                    rank = {cc: ii for ii, (cc, _) in enumerate(bt)}
                    is_tril = rank[r[0]] > rank[r[2]] or (r[0] == r[2] and r[1] > r[3])
                    if tril == "drop" and is_tril:
                        continue
                    sw = tril == "reflect" and is_tril
                    a, b = (r[2], r[3], r[0], r[1]) if sw else (r[0], r[1], r[2], r[3]), None
                    key = (model.bin_of(bt, a[0], a[1]), model.bin_of(bt, a[2], a[3]))
                    x1, x2 = (1000 + k, k) if sw else (k, 1000 + k)
                    s = wx.setdefault(key, [0, 0])
                    s[0] += x1
                    s[1] += x2
                gx = {k: [v[1], v[2]] for k, v in results[0].items()}
                c.check(gx == wx, "sided-fields-not-swapped-with-record", "sided extra fields are not swapped exactly on "
                        "the reflected records", lambda: {"got": sorted(gx.items())[:20], "want": sorted(wx.items())[:20]})
                # history: in the same process, a SECOND bin table over the same chromosomes with the same number of
                # bins (one interior edge moved by a base pair) - nothing of the first table may leak into its binning
                bt2 = sibling_table(rng, bt)
                if bt2 is not None:
                    want2, _ = ref_binning(bt2, recs, tril)
                    out2 = agg(sanitize_records(gen.bt_frame(bt2), **kw)(df.copy()))
                    got2 = {(int(a), int(b)): int(cn) for a, b, cn in zip(out2["bin1_id"], out2["bin2_id"], out2["count"])}
                    c.feature("history:second-bin-table-same-chromsizes-same-nbins")
                    c.check(got2 == want2, "pixel-counts-differ:api:second-table-of-same-shape",
                            "records binned against a second bin table (same chromosomes, same number of bins, one edge "
                            "moved) do not land in that table's bins",
                            lambda: {"bt2": bt2, "got": sorted(got2.items())[:20], "want": sorted(want2.items())[:20]})
                if path == "api_create" and tril is not None:
                    out_uri = os.path.join(d, "api.cool")
                    chunks = [agg(sanit(ch.copy())) for ch in gen.chunk_frames(df, gen.random_cuts(rng, len(df), 4))]
                    cooler.create_cooler(out_uri, bins, iter(chunks), ordered=False, columns=["count"])
                    keys, cols = read_pixels_raw(out_uri, "/", ("count",))
                    c.check(dict(zip(keys, cols["count"].tolist())) == want and list(keys) == sorted(want),
                            "pixel-counts-differ:api-create",
                            "cooler created from sanitized+aggregated chunks != reference binning")
        # ------------------------------------------------------------ sanitize_pixels
        elif path == "sanitize_pixels":
            P = {}
            for r in recs:
                if r[4] != "valid":
                    continue
                P[(model.bin_of(bt, r[0], r[1]), model.bin_of(bt, r[2], r[3]))] = int(rng.integers(1, 9))
            rows = [(a + shift, b + shift, v, a * 10, b * 10) for (a, b), v in P.items()]
            df = pd.DataFrame(rows, columns=["bin1_id", "bin2_id", "count", "s1", "s2"])
            df = df.iloc[rng.permutation(len(df))].reset_index(drop=True)
            lab = int(rng.integers(4))
            if lab and len(df):
                # row labels carry no meaning: repeated labels (as after pd.concat of two tables), shuffled, strings
                df = df.set_axis({1: [k_ % 3 for k_ in range(len(df))], 2: rng.permutation(len(df)) + 2,
                                  3: [f"r{k_}" for k_ in range(len(df))]}[lab], axis=0)
                c.feature("input-frame:non-default-row-labels")
            sanit_px = sanitize_pixels(bins, is_one_based=one_based, tril_action=tril, sided_fields=("s",))
            frame = df.copy()
            out = sanit_px(frame)
            c.feature("sided-fields")
            if rng.random() < 0.5:
                # history: the caller passes the SAME frame object again (e.g. to bin it for a second file);
                # the answer must be the same - the shift / reflection may not accumulate in the caller's frame (F31)
                out = sanit_px(frame)
                c.feature("history:same-frame-sanitized-twice")
            wantp = {}
            for (a, b), v in P.items():
                if tril is not None and a > b:
                    if tril == "drop":
                        continue
                    a, b = b, a
                wantp.setdefault((a, b), []).append(v)
            gotp = {}
            for a, b, v, s1, s2 in zip(out["bin1_id"], out["bin2_id"], out["count"], out["s1"], out["s2"]):
                gotp.setdefault((int(a), int(b)), []).append(int(v))
                c.check(int(s1) == int(a) * 10 and int(s2) == int(b) * 10, "sided-fields-not-swapped-with-record",
                        "sided columns do not follow the reflected pixel")
            c.check({k: sorted(v) for k, v in gotp.items()} == {k: sorted(v) for k, v in wantp.items()},
                    "pixel-counts-differ:sanitize_pixels", "sanitize_pixels output != reference",
                    lambda: {"got": sorted(gotp.items())[:20], "want": sorted(wantp.items())[:20]})
            ks = list(zip(out["bin1_id"].tolist(), out["bin2_id"].tolist()))
            c.check(ks == sorted(ks), "sanitize_pixels-not-sorted", "output not sorted by (bin1, bin2)")
            want = {k: sum(v) for k, v in wantp.items()}
        # ------------------------------------------------------------ CLI paths
        elif path in ("cli_pairs", "cli_bg2", "cli_coo"):
            from click.testing import CliRunner
            from cooler.cli import cli

            bed = bins_bed(d, bt)
            out_uri = os.path.join(d, "cli.cool")
            gz = bool(rng.random() < 0.3)
            csz = int([1, 3, 7, 10**6][int(rng.integers(4))])
            if path == "cli_pairs":
                txt = os.path.join(d, "in.pairs" + (".gz" if gz else ""))
                hdr = "## pairs format v1.0\n#columns: readID chr1 pos1 chr2 pos2\n" if rng.random() < 0.5 else None
                write_lines(txt, [(f"r{k}", r[0], r[1] + shift, r[2], r[3] + shift) for k, r in enumerate(recs)], gz, hdr)
                args = ["cload", "pairs", "-c1", "2", "-p1", "3", "-c2", "4", "-p2", "5", "--chunksize", str(csz),
                        bed, txt, out_uri]
                if not one_based:
                    args.insert(2, "--zero-based")
            elif path == "cli_bg2":
                # pre-binned: each unordered pixel once, orientation random; starts are bin starts or inside the bin
                bl = gen.bt_bins_list(bt)
                P = {}
                for r in recs:
                    if r[4] == "bad":
                        P[("bad",)] = r
                        continue
                    P[(r[0], r[1], r[2], r[3])] = r
                rows, recs2 = [], []
                seen = set()
                for r in P.values():
                    if r[4] == "valid":
                        b1, b2 = model.bin_of(bt, r[0], r[1]), model.bin_of(bt, r[2], r[3])
                        keyu = (min(b1, b2), max(b1, b2)) if tril == "reflect" else (b1, b2)
                        if keyu in seen:
                            continue
                        seen.add(keyu)
                    cnt = int(rng.integers(1, 9))
                    rows.append((r[0], r[1] + shift, r[1] + shift + 1, r[2], r[3] + shift, r[3] + shift + 1, cnt))
                    recs2 += [r] * cnt
                recs = recs2
                want, _ = ref_binning(bt, recs, tril)
                nvalid = sum(1 for r in recs if r[4] == "valid")
                txt = os.path.join(d, "in.bg2" + (".gz" if gz else ""))
                write_lines(txt, rows, gz)
                args = ["load", "-f", "bg2", "--chunksize", str(csz), bed, txt, out_uri]
                if one_based:
                    args.insert(3, "--one-based")
            else:
                P = {}
                for r in recs:
                    if r[4] != "valid":
                        continue
                    b1, b2 = model.bin_of(bt, r[0], r[1]), model.bin_of(bt, r[2], r[3])
                    keyu = (min(b1, b2), max(b1, b2)) if tril == "reflect" else (b1, b2)
                    P[keyu] = (b1, b2, int(rng.integers(1, 9)))
                rows = [(a + shift, b + shift, v) for a, b, v in P.values()]
                want = {}
                for a, b, v in P.values():
                    if tril is not None and a > b:
                        if tril == "drop":
                            continue
                        a, b = b, a
                    want[(a, b)] = want.get((a, b), 0) + v
                txt = os.path.join(d, "in.coo" + (".gz" if gz else ""))
                write_lines(txt, rows, gz)
                args = ["load", "-f", "coo", "--chunksize", str(csz), bed, txt, out_uri]
                if one_based:
                    args.insert(3, "--one-based")
                if not rows:
                    return
            if tril is None:
                args.insert(2 if path == "cli_pairs" else 1, "--no-symmetric-upper")
                if rng.random() < 0.4:
                    # the copy status is documented for symmetric-upper storage only: square storage keeps both triangles
                    args[2 if path == "cli_pairs" else 1:2 if path == "cli_pairs" else 1] = ["--input-copy-status", "duplex"]
                    c.feature("option:square+copy-status-duplex")
            elif tril == "drop":
                args[2 if path == "cli_pairs" else 1:2 if path == "cli_pairs" else 1] = ["--input-copy-status", "duplex"]
            res = CliRunner().invoke(cli, args)
            desc["args"] = [a if not a.startswith(d) else os.path.basename(a) for a in args]
            if want is None:
                c.check(res.exit_code != 0, f"out-of-range-accepted:{bad_kind}:{path}",
                        f"`cooler {' '.join(desc['args'])}` accepted a record with {bad_kind}")
                if res.exit_code != 0:
                    made = os.path.exists(out_uri) and cooler.fileops.is_cooler(out_uri)
                    c.check(not made, f"rejected-input-left-cooler:{path}",
                            "rejected input left a cooler at the destination")
            else:
                if not c.check(res.exit_code == 0, f"valid-records-rejected:{path}",
                               f"`cooler {' '.join(desc['args'])}` failed: {type(res.exception).__name__}: "
                               f"{str(res.exception)[:200]}"):
                    return
                keys, cols = read_pixels_raw(out_uri, "/", ("count",))
                got = dict(zip(keys, cols["count"].tolist()))
                c.check(list(keys) == sorted(got), f"pixel-rows-repeated-or-unsorted:{path}",
                        "the loaded pixel table is not a strictly increasing list of pixels",
                        lambda: {"keys": list(keys)[:30]})
                c.check(got == want, f"pixel-counts-differ:{path}", "loaded cooler != reference binning",
                        lambda: {"got": sorted(got.items())[:30], "want": sorted(want.items())[:30]})
                c.check(cooler.Cooler(out_uri).info["sum"] == sum(want.values()), f"total-differs:{path}",
                        "sum attribute != number of retained records")
        # ------------------------------------------------------------ tabix loader
        elif path == "tabix":
            import pysam
            from cooler.create import TabixAggregator

            tril = "reflect"
            rank = {cc: ii for ii, (cc, _) in enumerate(bt)}
            flipped = []
            first_anchor_bad = False
            for r in recs:
                c1, p1, c2, p2, fate = r
                r1, r2 = rank.get(c1, 99), rank.get(c2, 99)
                if r1 > r2 or (r1 == r2 and p1 > p2):
                    c1, p1, c2, p2 = c2, p2, c1, p1
                if fate == "bad":
                    L1 = dict(bt).get(c1, [0])[-1]
                    if not (0 <= p1 < L1):
                        first_anchor_bad = True
                if p1 < 0:
                    continue          # a negative first anchor cannot be represented in a tabix-indexed file
                flipped.append([c1, p1, c2, p2, fate])
            flipped.sort(key=lambda r: (rank.get(r[0], 99), r[0], r[1]))
            flipped = [r for r in flipped if r[0] in rank]    # chrom1 unknown: never fetched
            if not flipped:
                return
            want, _ = ref_binning(bt, [r for r in flipped if not (r[4] == "bad" and first_anchor_bad)], "reflect")
            txt = os.path.join(d, "in.pairs.txt")
            write_lines(txt, [(r[0], r[1] + shift, r[2], r[3] + shift) for r in flipped])
            if max(r[1] for r in flipped) + shift >= 2**29:
                return                  # a .tbi index cannot address positions beyond 512 Mb (harness limit, not cooler's)
            gzp = pysam.tabix_index(txt, force=True, seq_col=0, start_col=1, end_col=1, zerobased=not one_based)
            cs = gen.bt_chromsizes(bt)
            raised = None
            out_uri = os.path.join(d, "tbx.cool")
            if rng.random() < 0.5:
                from click.testing import CliRunner
                from cooler.cli import cli
                bed = bins_bed(d, bt)
                args = ["cload", "tabix", "-c2", "3", "-p2", "4", "-p", str(int(rng.integers(1, 3))),
                        "-s", str(int([1, 2, 3, 4, 5, 8][int(rng.integers(6))]))] + ([] if one_based else ["-0"]) + [bed, gzp, out_uri]
                r = CliRunner().invoke(cli, args)
                c.feature("path:cli-cload-tabix")
                if r.exit_code != 0:
                    raised = f"{type(r.exception).__name__}: {str(r.exception)[:100]}"
                    if not isinstance(r.exception, (ValueError, SystemExit)):
                        raise r.exception
            else:
                try:
                    tb = gen.bt_frame(bt, categorical=True)
                    lab = int(rng.integers(3))
                    if lab:
                        # row labels of the bin table carry no meaning (a filtered / concatenated table keeps old ones)
                        tb = tb.set_axis(np.arange(len(tb)) + 7 if lab == 1 else rng.permutation(len(tb)), axis=0)
                        c.feature("bin-table:non-default-row-labels:tabix")
                    it = TabixAggregator(gzp, cs, tb, is_one_based=one_based,
                                         n_chunks=int([1, 2, 3, 4, 5, 8][int(rng.integers(6))]), C2=2, P2=3)
                    cooler.create_cooler(out_uri, bins, it, ordered=True)
                except (BadInputError, ValueError) as e:
                    raised = f"{type(e).__name__}: {str(e)[:100]}"
            if want is None:
                c.check(raised is not None, f"out-of-range-accepted:{bad_kind}:tabix",
                        f"tabix loader counted a record with {bad_kind} (second anchor) instead of rejecting it")
            else:
                if not c.check(raised is None, "valid-records-rejected:tabix", f"valid records rejected: {raised}"):
                    return
                keys, cols = read_pixels_raw(out_uri, "/", ("count",))
                got = dict(zip(keys, cols["count"].tolist()))
                c.check(list(keys) == sorted(got), "pixel-rows-repeated-or-unsorted:tabix",
                        "the tabix-loaded pixel table is not a strictly increasing list of pixels",
                        lambda: {"keys": list(keys)[:30]})
                c.check(got == want, "pixel-counts-differ:tabix", "tabix-loaded cooler != reference binning",
                        lambda: {"got": sorted(got.items())[:30], "want": sorted(want.items())[:30]})
        if want is not None and nvalid >= 2:
            c.nontrivial(path, repr(bt), repr(recs[:60]), one_based, tril)
        ctx.sample({"path": path, "family": fam, "one_based": one_based, "tril": tril, "bad_kind": bad_kind,
                    "records": len(recs), "example_record": recs[0][:4] if recs else None}, limit=8)
