"""C07 Merging coolers is the exact element-wise aggregate of the inputs."""
from __future__ import annotations

import itertools
import os

import h5py
import numpy as np

from .. import gen, h5state, model, probes
from ..build import make_cooler, read_pixels_raw

RULE = ("k=1..5 generated input coolers over one bin table (empty, disjoint, identical supports, dense+sparse; "
        "1-2 value columns; both storage modes) merged by the real merge_coolers under every/sampled input "
        "permutations and mergebuf in {1,2,3,row,nnz,1e7}, aggregations sum/max/min/mean, nested merges "
        "(associativity); oracle = fold of the generated dicts, compared with the raw pixel table; refusals for "
        "incompatible pairs of every kind; integer sums that exceed the output dtype must raise or be stored "
        "exactly. Non-trivial: >=2 inputs with >=1 pixel; distinct = (inputs, order, mergebuf, agg)")
ASSUMPTIONS = ["int and dyadic-float values: sums exact in any order; mean compared with rtol 1e-12",
               "overflow clause is driven for integer column types narrower than int64 (HDF5 narrowing); a wrap of "
               "the int64 accumulator itself is outside what is generated"]
MIN_NONTRIVIAL = {"quick": 200, "thorough": 2000}
REQUIRED_PROBES = ["merge_breakpoints", "merger_iter"]
REQUIRED_FEATURES = ["inputs:mixed-int-float-dtypes", "inputs:has-empty", "inputs:identical-support", "inputs:disjoint-support", "agg:max", "agg:min",
                     "agg:mean", "assoc", "refuse:binsize", "refuse:chromsizes", "refuse:variable-bins",
                     "refuse:storage-mode", "overflow:int32", "overflow:uint16", "overflow:fits-with-dtypes-override",
                     "mode:square", "mode:symm", "mergebuf:1", "inputs:all-empty", "via:cli-merge",
                     "via:cli-merge:field-dtype+agg", "inputs:legacy-without-storage-mode-attr:some", "agg:count", "agg:range",
                     "overflow:requested-dtype-of-other-signedness:does-not-fit", "overflow:requested-dtype-of-other-signedness:fits",
                     "history:one-dtypes-dict-handed-to-two-merges", "refuse:odd-input-at-position>=3",
                     "option:dtype-for-first-listed-column-only"]


def plan(tier, seed):
    n = 14 if tier == "quick" else 48
    per = 10 if tier == "quick" else 80
    s = [{"kind": "merge", "sub": i, "cases": per} for i in range(n)]
    s.append({"kind": "refuse", "cases": 24 if tier == "quick" else 120})
    s.append({"kind": "overflow", "cases": 24 if tier == "quick" else 120})
    return s


def run(ctx, shard):
    probes.activate(ctx, owned={"merge_breakpoints", "merger_iter"})
    probes.probe_merge()
    probes.probe_create_exit()
    k = shard["kind"]
    if k == "merge":
        rng0 = ctx.rng("plan", shard["sub"])
        for i in range(shard["cases"]):
            seedk = int(rng0.integers(2**31))
            run_merge_case(ctx, shard, i, ctx.rng("case", shard["sub"], i, seedk))
    elif k == "refuse":
        run_refusals(ctx, shard)
    elif k == "overflow":
        run_overflow(ctx, shard)
        run_signedness(ctx, {"cases": max(16, shard["cases"] // 2)})
        run_reused_options(ctx, {"cases": max(8, shard["cases"] // 4)})


def gen_inputs(rng, n, symm, special):
    k = int(rng.integers(1, 6))
    Ps = []
    if special == 0:      # identical supports
        base = gen.gen_pixels(rng, n, symm, "sparse30")
        Ps = [{kk: gen.gen_value(rng, "int", 30) for kk in base} for _ in range(max(k, 2))]
    elif special == 1:    # disjoint supports
        base = sorted(gen.gen_pixels(rng, n, symm, "sparse70"))
        k = max(k, 2)
        Ps = [dict() for _ in range(k)]
        for kk in base:
            Ps[int(rng.integers(k))][kk] = gen.gen_value(rng, "int", 30)
    elif special == 2:    # one dense + several sparse + an empty one
        Ps = [gen.gen_pixels(rng, n, symm, "dense")] + [gen.gen_pixels(rng, n, symm, "sparse05") for _ in range(k)]
        Ps.insert(int(rng.integers(len(Ps) + 1)), {})
    elif special == 3:    # all empty
        Ps = [{} for _ in range(max(k, 2))]
    elif special == 4:    # empty inputs in first / middle positions
        Ps = [{}, gen.gen_pixels(rng, n, symm, None), {}, gen.gen_pixels(rng, n, symm, None)][: max(k, 2)]
    elif special == 5:    # explicitly stored zero values (kept, and summed like any other record)
        Ps = [gen.gen_pixels(rng, n, symm, None, zeros=0.4) for _ in range(max(k, 2))]
    else:
        Ps = [gen.gen_pixels(rng, n, symm, None) for _ in range(k)]
    return Ps[:5]


def run_merge_case(ctx, shard, i, rng):
    import cooler

    fam = gen.BT_FAMILIES[(shard["sub"] + i) % len(gen.BT_FAMILIES)]
    bt = gen.gen_bt(rng, fam, max_chroms=3, max_bins=12)
    n = gen.bt_nbins(bt)
    symm = bool(rng.random() < 0.6)
    special = (shard["sub"] * 7 + i) % 9
    Ps = gen_inputs(rng, n, symm, special)
    k = len(Ps)
    two = bool(rng.random() < 0.5)
    Es = [{kk: float(int(rng.integers(-80, 80))) / 8.0 for kk in P} for P in Ps]
    # value dtypes of the inputs: homogeneous, or mixed (the output must accommodate all of them)
    mixed = bool(rng.random() < 0.35)
    cdts = [None] * k
    if mixed:
        pool = [np.int32, np.float32, np.int64, np.float64, np.uint16, np.int16]
        cdts = [pool[int(rng.integers(len(pool)))] for _ in range(k)]
        for j, P in enumerate(Ps):
            if np.dtype(cdts[j]).kind == "f":
                for kk in P:
                    P[kk] = P[kk] + float(int(rng.integers(1, 8))) / 8.0     # fractional part must survive
    d = ctx.newdir()
    uris = []
    for j, P in enumerate(Ps):
        # inputs live in separate files or as groups of one file
        uri = os.path.join(d, f"in{j}.cool") if rng.random() < 0.7 else os.path.join(d, "multi.cool") + f"::/g{j}"
        make_cooler(uri, bt, P, symm=symm, extra={"score": Es[j]} if two else None, mode="a", count_dtype=cdts[j])
        uris.append(uri)
    legacy = []
    if symm and rng.random() < 0.25:
        # files written by old versions carry no storage-mode attribute (it defaults to symmetric-upper)
        for j, u in enumerate(uris):
            if rng.random() < 0.6:
                fp, _, gp = u.partition("::")
                with h5py.File(fp, "r+") as f:
                    del f[gp or "/"].attrs["storage-mode"]
                legacy.append(j)
    rowlen = max([sum(1 for P in Ps for kk in P if kk[0] == r) for r in range(n)] or [1])
    nnz_all = sum(len(P) for P in Ps)
    base_desc = {"bt": bt, "symm": symm, "inputs": [sorted((a, b, v) for (a, b), v in P.items())[:80] for P in Ps],
                 "two_cols": two}
    want_sum = model.fold((kv for P in Ps for kv in sorted(P.items())))
    want_sc = model.fold((kv for E in Es for kv in sorted(E.items())))
    perms = list(itertools.permutations(range(k))) if k <= 3 else \
        [tuple(rng.permutation(k).tolist()) for _ in range(5)] + [tuple(range(k)), tuple(reversed(range(k)))]
    if len(perms) > 6:
        perms = [perms[int(x)] for x in rng.permutation(len(perms))[:6]]
    bufs = [1, 2, 3, max(rowlen, 1), max(nnz_all, 1), 10**7]
    first_digest = None
    x = 0
    for perm in perms:
        for mb in [bufs[int(rng.integers(6))], bufs[int(rng.integers(6))]]:
            cid = f"m:{shard['sub']}:{i}:{x}"
            x += 1
            if not ctx.want(cid):
                continue
            desc = dict(base_desc, order=list(perm), mergebuf=mb)
            out = os.path.join(d, f"out{x}.cool")
            with ctx.case(cid, desc) as c:
                c.feature(f"mode:{'symm' if symm else 'square'}", f"k:{k}", f"family:{fam}")
                if mixed and len({np.dtype(x).kind for x in cdts}) > 1:
                    c.feature("inputs:mixed-int-float-dtypes")
                if legacy:
                    c.feature("inputs:legacy-without-storage-mode-attr" + (":all" if len(legacy) == k else ":some"))
                if any(not P for P in Ps) and any(P for P in Ps):
                    c.feature("inputs:has-empty")
                if all(not P for P in Ps):
                    c.feature("inputs:all-empty")
                if special == 0:
                    c.feature("inputs:identical-support")
                if special == 1:
                    c.feature("inputs:disjoint-support")
                if mb == 1:
                    c.feature("mergebuf:1")
                if x % 4 == 3:
                    from click.testing import CliRunner
                    from cooler.cli import cli
                    args = ["merge", out] + [uris[p] for p in perm] + ["-c", str(mb)]
                    if two:
                        args += ["--field", "count", "--field", "score"]
                    r = CliRunner().invoke(cli, args)
                    c.feature("via:cli-merge")
                    if r.exit_code != 0:
                        raise (r.exception or RuntimeError(r.output[-300:]))
                elif x % 4 == 2 and not mixed:
                    # dtypes override + append into a file that already holds another collection
                    make_cooler(out + "::/bystander", [["z", [0, 4, 8]]], {(0, 1): 5}, mode="a")
                    by0 = h5state.digest_uri(out, "/bystander")
                    cooler.merge_coolers(out, [uris[p] for p in perm], mergebuf=mb, mode="a", dtypes={"count": np.int64},
                                         columns=["count", "score"] if two else None)
                    c.feature("option:dtypes-override+append")
                    with h5py.File(out, "r") as f:
                        c.check(str(f["pixels/count"].dtype) == "int64", "merge-dtypes-override-ignored",
                                f"dtypes={{'count': int64}} requested but count is stored as {f['pixels/count'].dtype}")
                    c.check(h5state.digest_uri(out, "/bystander") == by0, "merge-append-changed-bystander",
                            "merging into an existing file (mode='a') changed another collection of that file")
                else:
                    cooler.merge_coolers(out, [uris[p] for p in perm], mergebuf=mb,
                                         columns=["count", "score"] if two else None)
                keys, cols = read_pixels_raw(out, "/", ("count", "score"))
                wk = sorted(want_sum)
                ok = c.check(keys == wk, "merge-pixel-set-differs", "merged pixel set != union of the inputs' pixels",
                             lambda: {"got": keys[:30], "want": wk[:30]})
                if ok:
                    c.check(cols["count"].tolist() == [want_sum[kk] for kk in wk], "merge-values-differ:sum",
                            "merged counts != element-wise sum of the inputs",
                            lambda: {"got": cols["count"].tolist()[:30], "want": [want_sum[kk] for kk in wk][:30]})
                    if two:
                        c.check(cols["score"].tolist() == [want_sc[kk] for kk in wk], "merge-values-differ:extra-column",
                                "merged extra column != element-wise sum")
                with h5py.File(out, "r") as f:
                    sm = f.attrs["sum"]
                    dg = h5state.content_digest(f["/"], skip_cols=(("pixels", "count"),)) + repr(f["pixels/count"][:].tolist())
                c.check(float(sm) == float(sum(sum(P.values()) for P in Ps)), "merge-sum-attr",
                        f"sum attribute {sm} != sum of input totals {sum(sum(P.values()) for P in Ps)}")
                c.check(cooler.Cooler(out).storage_mode == ("symmetric-upper" if symm else "square"),
                        "merge-storage-mode", "storage mode of the merge differs from the inputs")
                if first_digest is None:
                    first_digest = dg
                else:
                    c.check(dg == first_digest, "merge-depends-on-order-or-buffer",
                            "merge output differs between input orders / buffer sizes")
                if k >= 2 and nnz_all:
                    c.nontrivial(repr(bt), repr(base_desc["inputs"]), perm, mb)
                ctx.sample({"k": k, "order": list(perm), "mergebuf": mb, "nnz_inputs": [len(P) for P in Ps],
                            "symm": symm}, limit=4)
            if os.path.exists(out):
                os.remove(out)
    # aggregations
    for agg in ("max", "min", "mean"):
        cid = f"m:{shard['sub']}:{i}:agg-{agg}"
        if not ctx.want(cid) or not two and agg == "mean":
            continue
        out = os.path.join(d, f"agg_{agg}.cool")
        with ctx.case(cid, dict(base_desc, agg=agg)) as c:
            c.feature(f"agg:{agg}")
            col = "score" if agg == "mean" else "count"
            src = Es if agg == "mean" else Ps
            if (i + len(agg)) % 2 and not mixed:
                # the CLI spelling, field carrying BOTH a dtype and an aggregate (either order)
                from click.testing import CliRunner
                from cooler.cli import cli
                dt = "float64" if col == "score" else "int64"
                spec = f"{col}:dtype={dt},agg={agg}" if i % 2 else f"{col}:agg={agg},dtype={dt}"
                args = ["merge", out] + uris + ["-c", str(int([2, 10**7][int(rng.integers(2))])), "--field", spec]
                if two and col == "count":
                    args += ["--field", "score"]
                elif two:
                    args += ["--field", "count"]
                r = CliRunner().invoke(cli, args)
                c.feature("via:cli-merge:field-dtype+agg")
                if r.exit_code != 0:
                    raise (r.exception or RuntimeError(r.output[-300:]))
            else:
                cooler.merge_coolers(out, uris, mergebuf=int([2, 10**7][int(rng.integers(2))]),
                                     columns=["count", "score"] if two else None, agg={col: agg})
            keys, cols = read_pixels_raw(out, "/", ("count", "score"))
            want = model.fold((kv for S in src for kv in sorted(S.items())), agg)
            wk = sorted(want)
            if c.check(keys == wk, "merge-pixel-set-differs", f"pixel set under agg={agg} differs"):
                got = cols[col].tolist()
                if agg == "mean":
                    okv = np.allclose(got, [want[kk] for kk in wk], rtol=1e-12, atol=0)
                else:
                    okv = got == [want[kk] for kk in wk]
                c.check(okv, f"merge-values-differ:{agg}", f"merged column {col} != element-wise {agg}",
                        lambda: {"got": got[:30], "want": [want[kk] for kk in wk][:30]})
    # two value columns, an explicit dtype for the FIRST listed one only: the other keeps the common dtype of the inputs
    cid = f"m:{shard['sub']}:{i}:dtype-first-column-only"
    if ctx.want(cid) and two:
        out = os.path.join(d, "dt_first.cool")
        with ctx.case(cid, dict(base_desc, columns=["score", "count"], dtypes={"score": "float32"})) as c:
            c.feature("option:dtype-for-first-listed-column-only")
            via_cli = bool(i % 2)
            if via_cli:
                from click.testing import CliRunner
                from cooler.cli import cli
                r = CliRunner().invoke(cli, ["merge", out] + uris + ["--field", "score:dtype=float32", "--field", "count"])
                if r.exit_code != 0:
                    raise (r.exception or RuntimeError(r.output[-300:]))
            else:
                cooler.merge_coolers(out, uris, mergebuf=int([2, 10**7][int(rng.integers(2))]), columns=["score", "count"],
                                     dtypes={"score": np.float32})
            keys, cols = read_pixels_raw(out, "/", ("count", "score"))
            want = model.fold((kv for S in Ps for kv in sorted(S.items())))
            wk = sorted(want)
            if c.check(keys == wk, "merge-pixel-set-differs", "pixel set differs (dtype for the first listed column only)"):
                c.check([float(x) for x in cols["count"].tolist()] == [float(want[kk]) for kk in wk],
                        "merge-values-differ:dtype-given-for-another-column",
                        f"columns=['score','count'], dtypes={{'score': float32}}: count is stored as {cols['count'].dtype} and is "
                        f"not the exact sum of the inputs", lambda: {"got": cols["count"].tolist()[:12], "want": [want[kk] for kk in wk][:12]})
    # aggregates that are not the identity on a single record (any function pandas' groupby.agg accepts is allowed):
    # number of contributing records, and the range max-min, for every buffer size incl. epochs with one contributor
    for agg in ("count", "range"):
        cid = f"m:{shard['sub']}:{i}:agg-{agg}"
        if not ctx.want(cid):
            continue
        out = os.path.join(d, f"agg_{agg}.cool")
        with ctx.case(cid, dict(base_desc, agg=agg)) as c:
            c.feature(f"agg:{agg}")
            fn = "count" if agg == "count" else (lambda x: x.max() - x.min())
            mb = int([1, 2, 3, 10**7][int(rng.integers(4))])
            cooler.merge_coolers(out, uris, mergebuf=mb, agg={"count": fn},
                                 dtypes={"count": np.float64 if mixed and agg == "range" else np.int64})
            recs = {}
            for S in Ps:
                for kk, v in S.items():
                    recs.setdefault(kk, []).append(v)
            want = {kk: (len(v) if agg == "count" else max(v) - min(v)) for kk, v in recs.items()}
            keys, cols = read_pixels_raw(out, "/", ("count",))
            wk = sorted(want)
            if c.check(keys == wk, "merge-pixel-set-differs", f"pixel set under agg={agg} differs"):
                got = [float(x) for x in cols["count"].tolist()]
                c.check(got == [float(want[kk]) for kk in wk], f"merge-values-differ:{agg}",
                        f"merged column count != per-pixel {agg} of the inputs' records (mergebuf={mb}, {k} inputs)",
                        lambda: {"got": got[:30], "want": [want[kk] for kk in wk][:30]})
    # a fractional aggregate does not fit an integer column: must raise or be stored exactly
    cid = f"m:{shard['sub']}:{i}:agg-mean-int"
    if ctx.want(cid) and k >= 2 and not mixed:
        out = os.path.join(d, "agg_mean_int.cool")
        with ctx.case(cid, dict(base_desc, agg="mean-on-int-column")) as c:
            want = model.fold((kv for P in Ps for kv in sorted(P.items())), "mean")
            fractional = any(float(v) != int(v) for v in want.values())
            c.feature("agg:mean-on-int-column" + (":fractional" if fractional else ":integral"))
            raised = None
            try:
                cooler.merge_coolers(out, uris, mergebuf=10**7, agg={"count": "mean"})
            except Exception as e:  # noqa
                raised = type(e).__name__
            if raised is None:
                keys, cols = read_pixels_raw(out, "/", ("count",))
                got = dict(zip(keys, cols["count"].tolist()))
                same = set(got) == set(want) and all(float(got[kk]) == float(want[kk]) for kk in want)
                c.check(same, "fractional-aggregate-truncated:mean:int-column",
                        "agg=mean on an integer column: fractional means were stored truncated without error",
                        lambda: {"got": sorted(got.items())[:10], "want": sorted(want.items())[:10]})
            else:
                c.check(fractional, "integral-mean-refused", f"merge with agg=mean raised {raised} although every mean is integral")
    # associativity
    if k >= 3:
        cid = f"m:{shard['sub']}:{i}:assoc"
        if ctx.want(cid):
            with ctx.case(cid, dict(base_desc, assoc=True)) as c:
                c.feature("assoc")
                mb = int([1, 3, 10**7][int(rng.integers(3))])
                ab, bc = os.path.join(d, "ab.cool"), os.path.join(d, "bc.cool")
                l_, r_, f_ = os.path.join(d, "l.cool"), os.path.join(d, "r.cool"), os.path.join(d, "f.cool")
                cooler.merge_coolers(ab, uris[:2], mergebuf=mb)
                cooler.merge_coolers(l_, [ab] + uris[2:3], mergebuf=mb)
                cooler.merge_coolers(bc, uris[1:3], mergebuf=mb)
                cooler.merge_coolers(r_, [uris[0], bc], mergebuf=mb)
                cooler.merge_coolers(f_, uris[:3], mergebuf=mb)
                dl, dr, df_ = (h5state.digest_uri(p) for p in (l_, r_, f_))
                c.check(dl == dr == df_, "merge-not-associative",
                        "merge(merge(a,b),c), merge(a,merge(b,c)) and merge(a,b,c) differ",
                        lambda: {"left-vs-flat": h5state.diff_uris(l_, f_), "right-vs-flat": h5state.diff_uris(r_, f_)})
                want = model.fold((kv for P in Ps[:3] for kv in sorted(P.items())))
                keys, cols = read_pixels_raw(l_, "/", ("count",))
                c.check(keys == sorted(want) and cols["count"].tolist() == [want[kk] for kk in sorted(want)],
                        "merge-values-differ:nested", "nested merge != fold of the three inputs")


# ---------------------------------------------------------------- refusals
def run_refusals(ctx, shard):
    import cooler

    rng = ctx.rng("refuse")
    kinds = ["binsize", "chromsizes", "variable-bins", "storage-mode", "chrom-names", "fixed-vs-variable",
             "variable-bins:names-only", "fixed-bins:names-swapped"]
    for i in range(shard["cases"]):
        kind = kinds[i % len(kinds)]
        cid = f"refuse:{i}"
        if not ctx.want(cid):
            continue
        d = ctx.newdir()
        b = int(rng.integers(2, 6))
        nb = int(rng.integers(2, 6))
        btA = [["chr1", gen.fixed_edges(nb * b, b)], ["chr2", gen.fixed_edges(b * 2 + 1, b)]]
        symA = symB = True
        if kind == "binsize":
            b2 = b * 2
            btB = [["chr1", gen.fixed_edges(nb * b, b2)], ["chr2", gen.fixed_edges(b * 2 + 1, b2)]]
        elif kind == "chromsizes":
            btB = [["chr1", gen.fixed_edges(nb * b, b)], ["chr2", gen.fixed_edges(b * 2 + 2, b)]]
            if rng.random() < 0.5:   # same bin count, different last length
                btB = [["chr1", gen.fixed_edges(nb * b - 1, b)], ["chr2", gen.fixed_edges(b * 2 + 1, b)]]
        elif kind == "variable-bins":
            btA = [["chr1", [0, 3, 4, 9, 11]], ["chr2", [0, 5, 7]]]
            btB = [["chr1", [0, 3, 5, 9, 11]], ["chr2", [0, 5, 7]]]     # same lengths, same bin count
        elif kind == "variable-bins:names-only":
            # variable-width tables with the same layout (ids, starts, ends) whose chromosomes are NAMED differently
            e1 = [0, 3, 4, 9, 11] if rng.random() < 0.5 else [0, 2, 7]
            btA = [["chrA", e1], ["chrB", list(e1)]]
            btB = [["chrB", e1], ["chrA", list(e1)]] if rng.random() < 0.5 else [["chrA", e1], ["chrZ", list(e1)]]
        elif kind == "fixed-bins:names-swapped":
            eq = gen.fixed_edges(nb * b, b)
            btA = [["chr1", eq], ["chr2", list(eq)]]
            btB = [["chr2", eq], ["chr1", list(eq)]]
        elif kind == "storage-mode":
            btB = btA
            symB = False
        elif kind == "chrom-names":
            btB = [["chr1", btA[0][1]], ["chrX", btA[1][1]]]
        elif kind == "fixed-vs-variable":
            e = btA[0][1]
            btB = [["chr1", [0, e[1] - 1] + e[2:]], ["chr2", btA[1][1]]] if e[1] > 1 else None
            if btB is None or gen.bt_nbins(btB) != gen.bt_nbins(btA):
                btB = [["chr1", [0, 1] + e[2:]], ["chr2", btA[1][1]]]
        PA = gen.gen_pixels(rng, gen.bt_nbins(btA), symA, "sparse70")
        PB = gen.gen_pixels(rng, gen.bt_nbins(btB), symB, "sparse70")
        a, bpath = os.path.join(d, "a.cool"), os.path.join(d, "b.cool")
        make_cooler(a, btA, PA, symm=symA)
        make_cooler(bpath, btB, PB, symm=symB)
        with ctx.case(cid, {"kind": kind, "btA": btA, "btB": btB, "symA": symA, "symB": symB}) as c:
            c.feature(f"refuse:{kind}")
            a2 = os.path.join(d, "a2.cool")
            make_cooler(a2, btA, gen.gen_pixels(rng, gen.bt_nbins(btA), symA, "sparse70"), symm=symA)
            # the odd one out at every position, also third and later among three or four inputs
            for order in ((a, bpath), (bpath, a), (a, a2, bpath), (a, a2, a, bpath), (a, bpath, a2)):
                if len(order) > 2:
                    c.feature("refuse:odd-input-at-position>=3")
                out = os.path.join(d, "out.cool")
                if os.path.exists(out):
                    os.remove(out)
                raised = None
                try:
                    cooler.merge_coolers(out, list(order), mergebuf=int([2, 10**7][int(rng.integers(2))]))
                except Exception as e:  # noqa - any error is a refusal
                    raised = type(e).__name__
                c.check(raised is not None, f"incompatible-merged:{kind}",
                        f"inputs that differ in {kind} were merged instead of refused", {"order": [os.path.basename(p) for p in order]})
                made = os.path.exists(out) and h5py.is_hdf5(out) and cooler.fileops.is_cooler(out)
                c.check(not made, f"refused-merge-left-cooler:{kind}", "a refused merge left a cooler at the destination")
            c.nontrivial("refuse", kind, repr(btA), repr(btB))
            ctx.sample({"refusal": kind, "btA": btA, "btB": btB}, limit=7)


# ---------------------------------------------------------------- dtype limits
def run_overflow(ctx, shard):
    import cooler

    rng = ctx.rng("overflow")
    for i in range(shard["cases"]):
        cid = f"overflow:{i}"
        if not ctx.want(cid):
            continue
        dt = [np.int32, np.uint16, np.int16, np.int32, np.uint8][i % 5]
        info = np.iinfo(dt)
        d = ctx.newdir()
        bt = [["a", [0, 10, 20, 30]], ["b", [0, 10]]]
        n = 4
        hot = (int(rng.integers(0, 2)), int(rng.integers(2, 4)))
        k = int(rng.integers(2, 4))
        fits = bool(i % 3 == 2)
        override = bool(i % 4 == 3)
        vals = [int(info.max) - int(rng.integers(0, 3))] + [int(rng.integers(3, 9)) for _ in range(k - 1)]
        if fits:
            vals = [int(info.max) - 20] + [int(rng.integers(1, 5)) for _ in range(k - 1)]
        order = rng.permutation(k)
        uris = []
        Ps = []
        for j in range(k):
            P = gen.gen_pixels(rng, n, True, "sparse70", vmax=5)
            P[hot] = vals[j]
            Ps.append(P)
            uri = os.path.join(d, f"in{j}.cool")
            make_cooler(uri, bt, P, count_dtype=dt)
            uris.append(uri)
        want = model.fold((kv for P in Ps for kv in sorted(P.items())))
        out = os.path.join(d, "out.cool")
        desc = {"dtype": np.dtype(dt).name, "hot_pixel": hot, "values": vals, "exact_sum": want[hot],
                "fits": want[hot] <= info.max, "dtypes_override": override}
        with ctx.case(cid, desc) as c:
            c.feature(f"overflow:{np.dtype(dt).name}")
            kw = {}
            if override:
                kw["dtypes"] = {"count": np.int64}
                c.feature("overflow:fits-with-dtypes-override")
            raised = None
            try:
                cooler.merge_coolers(out, [uris[j] for j in order], mergebuf=int([2, 10**7][i % 2]), **kw)
            except Exception as e:  # noqa
                raised = f"{type(e).__name__}: {str(e)[:120]}"
            exact_fits = override or want[hot] <= info.max
            if raised is None:
                keys, cols = read_pixels_raw(out, "/", ("count",))
                got = dict(zip(keys, cols["count"].tolist()))
                c.check(got == want, "overflow-stored-value-differs:silent",
                        f"aggregate {want[hot]} exceeds {np.dtype(dt).name} (max {info.max}) but a different value "
                        f"{got.get(hot)} was stored without error" if not exact_fits else
                        f"stored values differ from the exact aggregate ({got.get(hot)} vs {want[hot]})",
                        {"got_hot": got.get(hot), "want_hot": want[hot]})
                if os.path.exists(out):
                    with h5py.File(out, "r") as f:
                        c.check(int(f.attrs["sum"]) == sum(got.values()), "overflow-sum-attr-disagrees",
                                "sum attribute disagrees with the stored column")
            else:
                c.check(not exact_fits, "overflow-false-refusal",
                        f"merge raised {raised} although the exact aggregate fits the output type")
                if os.path.exists(out) and h5py.is_hdf5(out):
                    c.check(not cooler.fileops.is_cooler(out), "overflow-error-left-cooler",
                            "an overflow error left a recognisable cooler at the destination")
                c.feature("overflow:raised")
            c.nontrivial("overflow", np.dtype(dt).name, tuple(vals), override)
            ctx.sample(desc | {"outcome": raised or "stored exactly"}, limit=6)


def run_signedness(ctx, shard):
    """Requested output type of the OTHER signedness (same or larger width than the inputs): an aggregate outside its
    range must raise or be stored exactly - never be clipped silently."""
    import cooler

    rng = ctx.rng("signedness")
    combos = [(np.uint16, np.int16, [30000, 20000]), (np.uint16, np.int16, [20000, 9000]), (np.int32, np.uint32, [-7, 3]),
              (np.int32, np.uint64, [-9, 2, 1]), (np.int16, np.uint16, [5, -3, 4]), (np.uint32, np.int32, [2**31 - 5, 9]),
              (np.int8, np.uint8, [-1, -1]), (np.uint8, np.int8, [100, 100])]
    for i in range(shard["cases"]):
        cid = f"signedness:{i}"
        if not ctx.want(cid):
            continue
        idt, odt, vals = combos[i % len(combos)]
        d = ctx.newdir()
        bt = [["a", [0, 10, 20, 30]], ["b", [0, 10]]]
        hot = (int(rng.integers(0, 2)), int(rng.integers(2, 4)))
        uris, Ps = [], []
        for j, v in enumerate(vals):
            P = gen.gen_pixels(rng, 4, True, "sparse70", vmax=5)
            P[hot] = v
            Ps.append(P)
            uri = os.path.join(d, f"in{j}.cool")
            make_cooler(uri, bt, P, count_dtype=idt)
            uris.append(uri)
        want = model.fold((kv for P in Ps for kv in sorted(P.items())))
        io = np.iinfo(odt)
        fits = all(io.min <= v <= io.max for v in want.values())
        out = os.path.join(d, "out.cool")
        desc = {"input_dtype": np.dtype(idt).name, "requested_dtype": np.dtype(odt).name, "values": vals,
                "exact_sum": want[hot], "fits": fits}
        with ctx.case(cid, desc) as c:
            c.feature("overflow:requested-dtype-of-other-signedness" + (":fits" if fits else ":does-not-fit"))
            raised = None
            try:
                if i % 2:
                    from click.testing import CliRunner
                    from cooler.cli import cli
                    r = CliRunner().invoke(cli, ["merge", out] + uris + ["--field", f"count:dtype={np.dtype(odt).name}"])
                    if r.exit_code != 0:
                        raised = f"{type(r.exception).__name__}: {str(r.exception)[:100]}"
                else:
                    cooler.merge_coolers(out, uris, mergebuf=int([2, 10**7][i % 2]), dtypes={"count": odt})
            except Exception as e:  # noqa
                raised = f"{type(e).__name__}: {str(e)[:120]}"
            if raised is None:
                keys, cols = read_pixels_raw(out, "/", ("count",))
                got = dict(zip(keys, [int(x) for x in cols["count"].tolist()]))
                c.check(got == want and list(keys) == sorted(want), "overflow-stored-value-differs:silent:other-signedness",
                        f"{np.dtype(idt).name} inputs {vals} merged into a requested {np.dtype(odt).name} column: exact "
                        f"aggregate {want[hot]}, stored {got.get(hot)} without error",
                        {"got_hot": got.get(hot), "want_hot": want[hot]})
            else:
                c.check(not fits, "overflow-false-refusal:other-signedness",
                        f"merge raised {raised} although every exact aggregate fits {np.dtype(odt).name}")
                c.feature("overflow:raised")
            c.nontrivial("signedness", np.dtype(idt).name, np.dtype(odt).name, tuple(vals))


def run_reused_options(ctx, shard):
    """History: ONE options object (dtypes dict) handed to two merges in turn - integer inputs first, then inputs with
    fractional float values. Each merge is judged on its own inputs."""
    import cooler

    rng = ctx.rng("reused")
    bt = [["a", [0, 10, 20, 30]], ["b", [0, 10, 20]]]
    for i in range(shard["cases"]):
        cid = f"reused:{i}"
        if not ctx.want(cid):
            continue
        d = ctx.newdir()
        groups = []
        for flt in (False, True):
            Ps, uris = [], []
            for j in range(2):
                P = gen.gen_pixels(rng, 5, True, "sparse70", vmax=20) or {(0, 1): 3}
                if flt:
                    P = {kk: v + float(int(rng.integers(1, 8))) / 8 for kk, v in P.items()}
                uri = os.path.join(d, f"in{int(flt)}{j}.cool")
                make_cooler(uri, bt, P, count_dtype=np.float64 if flt else None)
                Ps.append(P); uris.append(uri)
            groups.append((Ps, uris))
        shared = {} if i % 2 == 0 else {"score": np.float32}        # names no column of the first merge, or none at all
        with ctx.case(cid, {"history": ["merge int inputs with dtypes=D", "merge float inputs with the same D"],
                            "D": {k: np.dtype(v).name for k, v in shared.items()}}) as c:
            c.feature("history:one-dtypes-dict-handed-to-two-merges")
            for step, (Ps, uris) in enumerate(groups):
                out = os.path.join(d, f"out{step}.cool")
                cooler.merge_coolers(out, uris, mergebuf=int([2, 10**7][i % 2]), dtypes=shared)
                want = model.fold((kv for P in Ps for kv in sorted(P.items())))
                keys, cols = read_pixels_raw(out, "/", ("count",))
                wk = sorted(want)
                c.check(keys == wk and [float(x) for x in cols["count"].tolist()] == [float(want[x]) for x in wk],
                        "merge-values-differ:options-object-reused" if step else "merge-values-differ:sum",
                        f"merge #{step + 1} of the history (inputs stored as {'float64' if step else 'int32'}): stored values "
                        f"({cols['count'].dtype}) are not the exact sums of its inputs",
                        lambda: {"got": cols["count"].tolist()[:12], "want": [want[x] for x in wk][:12]})
            c.nontrivial("reused", i)
