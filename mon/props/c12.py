"""C12 Balanced reads equal raw values times the two bin weights."""
from __future__ import annotations

import os

import h5py
import numpy as np

from .. import gen, model, probes
from ..build import make_cooler

RULE = ("generated coolers with 1-3 weight columns (names weight, KR, VC, VC_SQRT, arbitrary; written as extra bin "
        "columns at creation or by balance_cooler(store=True)); weights distinct per bin with NaNs so a swapped or "
        "offset index cannot cancel; every window for n<=bound (sampled above, always incl. rectangular windows with "
        "different row/column ranges and empty ones) x dense/sparse/as_pixels(join or not) x balance=True|name x "
        "divisive_weights None/True/False x both storage modes, through Cooler.matrix and `cooler dump -b`; oracle = "
        "raw * w[i] * w[j] (reciprocals when divisive) from the generated values, rtol 1e-12, exact NaN pattern. "
        "Non-trivial: window holds >=1 stored pixel; distinct = (cooler, weight column, options, window)")
ASSUMPTIONS = ["dense output is NaN wherever either bin is masked (outer product), sparse/pixel outputs only list stored "
               "entries", "one or two multiplications: rtol 1e-12"]
EXHAUSTIVE = {"quick": "all windows for n<=5", "thorough": "all windows for n<=8"}
MIN_NONTRIVIAL = {"quick": 800, "thorough": 8000}
REQUIRED_FEATURES = ["name:weight", "name:KR", "name:VC", "name:VC_SQRT", "name:custom", "divisive:None", "divisive:True",
                     "divisive:False", "window:rectangular", "window:diagonal-square", "window:empty", "form:dense",
                     "form:sparse", "form:pixels", "form:pixels-join", "missing-column", "cli:dump-b", "mode:square",
                     "mode:symm", "stored-by-balance_cooler", "cli:dump-b:fill-lower", "cli:dump-b:region",
                     "history:column-rewritten-after-read"]

NAMES = ["weight", "KR", "VC", "VC_SQRT", "myw", "ICE_2"]


def plan(tier, seed):
    if tier == "quick":
        return [{"kind": "exh", "n": [5, 4, 3, 5, 4, 5][i % 6], "sub": i} for i in range(12)] + \
               [{"kind": "sampled", "n": 14, "windows": 250, "sub": 100 + i} for i in range(3)] + \
               [{"kind": "cli", "cases": 8, "sub": 200 + i} for i in range(3)]
    return [{"kind": "exh", "n": [8, 7, 6, 7, 8, 5][i % 6], "sub": i} for i in range(48)] + \
           [{"kind": "sampled", "n": [14, 30, 60][i % 3], "windows": 2500, "sub": 100 + i} for i in range(16)] + \
           [{"kind": "cli", "cases": 40, "sub": 200 + i} for i in range(6)]


def run(ctx, shard):
    probes.activate(ctx)
    if shard["kind"] == "cli":
        run_cli(ctx, shard)
        return
    rng = ctx.rng(shard["kind"], shard["sub"])
    one_cooler(ctx, f"{shard['kind']}:{shard['sub']}", rng, shard["n"], shard.get("windows"))


def gen_weights(rng, n):
    w = rng.uniform(0.2, 3.0, size=n) * np.array([1.0 + 0.37 * i for i in range(n)])
    mask = rng.random(n) < 0.2
    w[mask] = np.nan
    return w


def build(ctx, rng, n, symm, names, via_balance=False, sparse=False):
    import cooler

    nch = 1 if n < 4 else int(rng.integers(1, 4))
    cuts = sorted(rng.choice(np.arange(1, n), size=nch - 1, replace=False).tolist()) if nch > 1 else []
    bounds = [0] + cuts + [n]
    bt = [[f"c{i}", list(range(0, (b - a) * 10 + 1, 10))] for i, (a, b) in enumerate(zip(bounds[:-1], bounds[1:]))]
    P = gen.gen_pixels(rng, n, symm, ["dense", "sparse70", "sparse30", "emptyrows"][int(rng.integers(4))]
                       if not sparse else "sparse05")
    W = {nm: gen_weights(rng, n) for nm in names}
    if rng.random() < 0.4:
        # a weight column stored with an INTEGER dtype (e.g. raw integer bin coverage used as VC-style weights)
        W[names[-1]] = rng.integers(1, 12, size=n).astype(np.int64)
    path = ctx.path()
    group = "/" if rng.random() < 0.6 or sparse else "/cells/c1"
    uri = path + ("::" + group if group != "/" else "")
    make_cooler(uri, bt, P, symm=symm, bins_extra=W)
    if via_balance and symm:
        clr = cooler.Cooler(uri)
        w, _ = cooler.balance_cooler(clr, store=True, store_name="balw", ignore_diags=1, min_nnz=1, mad_max=0,
                                     max_iters=50)
        with h5py.File(path, "r") as f:
            W["balw"] = f[group]["bins/balw"][:]
    return uri, bt, P, W


def expected(D, wi, wj, divisive):
    a = 1.0 / wi if divisive else wi
    b = 1.0 / wj if divisive else wj
    return D * np.outer(a, b)


def check_window(c, clr, D, rows, W, name, bal, div, w, symm):
    i0, i1, j0, j1 = w
    divisive = bool(div) if div is not None else (name in ("KR", "VC", "VC_SQRT"))
    wi, wj = np.asarray(W[name][i0:i1], dtype=float), np.asarray(W[name][j0:j1], dtype=float)
    ref = expected(D[i0:i1, j0:j1], wi, wj, divisive)
    kw = dict(balance=bal)
    if div is not None:
        kw["divisive_weights"] = div
    got = clr.matrix(**kw)[i0:i1, j0:j1]
    ok = got.shape == ref.shape and np.allclose(got, ref, rtol=1e-12, atol=0, equal_nan=True) \
        and np.array_equal(np.isnan(got), np.isnan(ref))
    shape = "diagonal-square" if (i0, i1) == (j0, j1) else "rectangular"
    if not ok:
        c.fail(f"balanced-dense-wrong:{'divisive' if divisive else 'multiplicative'}:{shape}",
               f"dense balanced window {w} (column {name}, balance={bal!r}, divisive_weights={div}) != raw*w_i*w_j",
               {"got": got, "want": ref, "window": w})
        return False
    sp = clr.matrix(sparse=True, **kw)[i0:i1, j0:j1]
    a = 1.0 / wi if divisive else wi
    b = 1.0 / wj if divisive else wj
    rawsp = clr.matrix(sparse=True, balance=False)[i0:i1, j0:j1]
    refd = {(int(r), int(cc)): v * a[r] * b[cc] for r, cc, v in zip(rawsp.row, rawsp.col, rawsp.data)}
    gotd = {(int(r), int(cc)): v for r, cc, v in zip(sp.row, sp.col, sp.data)}
    oks = set(gotd) == set(refd) and all(
        (np.isnan(gotd[k]) and np.isnan(refd[k])) or np.isclose(gotd[k], refd[k], rtol=1e-12, atol=0) for k in refd)
    oks = oks and all(D[i0 + r, j0 + cc] != 0 for (r, cc) in gotd)
    if not oks:
        c.fail(f"balanced-sparse-wrong:{'divisive' if divisive else 'multiplicative'}:{shape}",
               f"sparse balanced window {w} (column {name}, divisive_weights={div}) != raw*w_i*w_j on stored entries",
               {"got": sorted(gotd.items())[:20], "want": sorted(refd.items())[:20]})
        return False
    for join in (False, True):
        df = clr.matrix(as_pixels=True, join=join, **kw)[i0:i1, j0:j1]
        wantp = [r for r in rows if i0 <= r[0] < i1 and j0 <= r[1] < j1]
        A = 1.0 / np.asarray(W[name], dtype=float) if divisive else np.asarray(W[name], dtype=float)
        refb = [v * A[i] * A[j] for i, j, v in wantp]
        gotb = df["balanced"].tolist()
        okp = len(gotb) == len(refb) and all(
            (np.isnan(x) and np.isnan(y)) or np.isclose(x, y, rtol=1e-12, atol=0) for x, y in zip(gotb, refb))
        if not join:
            okp = okp and list(zip(df["bin1_id"].tolist(), df["bin2_id"].tolist(), df["count"].tolist())) == wantp
        else:
            okp = okp and df["count"].tolist() == [r[2] for r in wantp] and "start1" in df.columns
        if not okp:
            c.fail(f"balanced-pixels-wrong:{'divisive' if divisive else 'multiplicative'}",
                   f"as_pixels(join={join}) balanced column of window {w} (column {name}) != raw*w1*w2",
                   {"got": gotb[:20], "want": refb[:20]})
            return False
        # the same query keeping the pixel ids as row labels: same rows, same values, labels = stored row numbers
        dfi = clr.matrix(as_pixels=True, join=join, ignore_index=False, **kw)[i0:i1, j0:j1]
        goti = dfi["balanced"].tolist()
        oki = len(goti) == len(refb) and all(
            (np.isnan(x) and np.isnan(y)) or np.isclose(x, y, rtol=1e-12, atol=0) for x, y in zip(goti, refb))
        if symm is False or True:
            ids = {(r[0], r[1]): k for k, r in enumerate(rows)}
            if not join and oki:
                oki = list(dfi.index) == [ids[(a, b)] for a, b in zip(dfi["bin1_id"].tolist(), dfi["bin2_id"].tolist())]
        if not oki:
            c.fail(f"balanced-pixels-wrong:ignore_index=False:{'divisive' if divisive else 'multiplicative'}",
                   f"as_pixels(join={join}, ignore_index=False) of window {w} (column {name}): balanced values / row "
                   f"labels differ from the default query", {"got": goti[:20], "want": refb[:20], "index": list(dfi.index)[:20]})
            return False
    c.ctx.oracle_evals += 4
    return True


def one_cooler(ctx, cid, rng, n, nsample):
    import cooler

    if not ctx.want(cid):
        return
    symm = bool(rng.random() < 0.65)
    names = ["weight"] + [NAMES[int(x)] for x in rng.permutation(np.arange(1, len(NAMES)))[:2]]
    via_balance = bool(rng.random() < 0.3)
    path, bt, P, W = build(ctx, rng, n, symm, names, via_balance)
    D = model.dense(P, n, symm)
    rows = [(i, j, P[(i, j)]) for (i, j) in sorted(P)]
    clr = cooler.Cooler(path)
    with ctx.case(cid, {"n": n, "symm": symm, "bt": bt, "weights": {k: v for k, v in W.items()},
                        "pixels": rows[:100]}) as c:
        c.feature(f"mode:{'symm' if symm else 'square'}", "location:nested-group" if "::" in path else "location:root")
        if "balw" in W:
            c.feature("stored-by-balance_cooler")
        if nsample is None:
            rr = [(a, b) for a in range(n + 1) for b in range(a, n + 1)]
            windows = [(a, b, x, y) for a, b in rr for x, y in rr]
        else:
            from .c03 import sample_windows
            windows = sample_windows(rng, n, nsample)
        combos = []
        for nm in W:
            for div in (None, True, False, np.True_, 1, np.False_):      # the flag as h5py / numpy hand it over, too
                combos.append((nm, div))
        if any(np.asarray(v).dtype.kind in "iu" for v in W.values()):
            c.feature("weights:integer-dtype-column")
        nw = 0
        ok = True
        for wi_, w in enumerate(windows):
            nm, div = combos[wi_ % len(combos)]
            bal = True if nm == "weight" and wi_ % 2 == 0 else nm
            i0, i1, j0, j1 = w
            ok = check_window(c, clr, D, rows, W, nm, bal, div, w, symm)
            nw += 1
            c.feature(f"name:{nm if nm in ('weight', 'KR', 'VC', 'VC_SQRT') else 'custom'}", f"divisive:{div}")
            if i1 == i0 or j1 == j0:
                c.feature("window:empty")
            elif (i0, i1) == (j0, j1):
                c.feature("window:diagonal-square")
            else:
                c.feature("window:rectangular")
            if i1 > i0 and j1 > j0 and D[i0:i1, j0:j1].any():
                c.nontrivial(cid, nm, div, w)
            if not ok:
                break
        # history: the columns are rewritten (in place / deleted and re-created / by balance_cooler again) after they
        # have been read: later queries - same object and a new one - use the column as stored NOW
        if ok and windows:
            fp, _, gp = path.partition("::")
            for nm in list(W):
                new = gen_weights(rng, n)
                if np.asarray(W[nm]).dtype.kind in "iu":
                    new = rng.integers(1, 12, size=n).astype(np.int64)       # an integer column stays one
                with h5py.File(fp, "r+") as f:
                    g = f[gp or "/"]["bins"]
                    if nm == "balw":
                        continue
                    if rng.random() < 0.5:
                        g[nm][:] = new
                    else:
                        attrs = dict(g[nm].attrs)
                        del g[nm]
                        g.create_dataset(nm, data=new)
                        g[nm].attrs.update(attrs)
                W[nm] = new
            if "balw" in W:
                cooler.balance_cooler(clr, store=True, store_name="balw", ignore_diags=0, min_nnz=0, mad_max=0,
                                      max_iters=3)
                with h5py.File(fp, "r") as f:
                    W["balw"] = f[gp or "/"]["bins/balw"][:]
            c.feature("history:column-rewritten-after-read")
            for obj in (clr, cooler.Cooler(path)):
                for k_ in rng.permutation(len(windows))[:6]:
                    nm, div = combos[int(rng.integers(len(combos)))]
                    ok = ok and check_window(c, obj, D, rows, W, nm, nm, div, windows[int(k_)], symm)
                    nw += 1
        c.feature("form:dense", "form:sparse", "form:pixels", "form:pixels-join")
        # missing weight column is an error, not an unbalanced result
        for bad in ("nonexistent", "KR" if "KR" not in W else "zzz"):
            raised = None
            try:
                clr.matrix(balance=bad)[:, :]
            except ValueError as e:
                raised = str(e)
            c.check(raised is not None, "missing-weight-column-ignored",
                    f"matrix(balance={bad!r}) returned a result although bins/{bad} does not exist")
            c.feature("missing-column")
        ctx.evaluations += nw - 1
        ctx.extra["windows"] = ctx.extra.get("windows", 0) + nw
        ctx.sample({"n": n, "symm": symm, "weight_columns": list(W), "windows": nw}, limit=4)
    os.remove(path.split("::")[0])


def run_cli(ctx, shard):
    """`cooler dump -b` rows == API balanced pixels (column 'weight', multiplicative)."""
    import cooler
    from click.testing import CliRunner
    from cooler.cli import cli

    rng = ctx.rng("cli", shard.get("sub", 0))
    for k in range(shard["cases"]):
        cid = f"cli:{shard.get('sub', 0)}:{k}"
        if not ctx.want(cid):
            continue
        n = int(rng.integers(3, 12)) if k % 2 else int(rng.integers(20, 70))     # also: many bins, few pixels per chunk
        symm = bool(k % 3 != 2)
        has_weight = k % 5 != 4
        path, bt, P, W = build(ctx, rng, n, symm, ["weight"] if has_weight else ["KR"], sparse=bool(k % 2 == 0))
        with ctx.case(cid, {"n": n, "symm": symm, "bt": bt, "has_weight": has_weight}) as c:
            c.feature("cli:dump-b")
            res = CliRunner().invoke(cli, ["dump", "-b", "--float-format", ".17g", "--na-rep", "nan", path])
            if not has_weight:
                c.check(res.exit_code != 0, "missing-weight-column-ignored:cli",
                        "`cooler dump -b` succeeded although bins/weight does not exist")
                c.feature("missing-column")
                continue
            if not c.check(res.exit_code == 0, "dump-b-failed", f"cooler dump -b exit {res.exit_code}: {res.output[-200:]}"):
                continue
            rows = [ln.split("\t") for ln in res.output.strip("\n").split("\n") if ln]
            want = []
            for (i, j) in sorted(P):
                want.append((i, j, P[(i, j)], P[(i, j)] * W["weight"][i] * W["weight"][j]))
            ok = len(rows) == len(want)
            if ok:
                for r, w in zip(rows, want):
                    bal = float(r[3])
                    ok = ok and (int(r[0]), int(r[1]), int(r[2])) == w[:3] and (
                        (np.isnan(bal) and np.isnan(w[3])) or np.isclose(bal, w[3], rtol=1e-12, atol=0))
            c.check(ok, "dump-balanced-wrong", "`cooler dump -b` rows != raw*w1*w2 of the generated data",
                    lambda: {"got": rows[:10], "want": want[:10]})
            # with --fill-lower / row and column regions / small chunks (chunks then hold mirrored records)
            clr = cooler.Cooler(path)
            D = model.dense(P, n, symm)
            chroms = [(c_, e[-1]) for c_, e in bt]
            for rep in range(8):
                (ca, La), (cb, Lb) = chroms[int(rng.integers(len(chroms)))], chroms[int(rng.integers(len(chroms)))]
                args = ["dump", "-b", "--float-format", ".17g", "--na-rep", "nan", "-k", str(int([1, 2, 5, 10**6][rep % 4]))]
                fill = bool(symm and rep % 2 == 0)
                if fill:
                    args.append("--fill-lower")
                i0, i1, j0, j1 = 0, n, 0, n
                if rep >= 2:
                    s1 = int(rng.integers(0, La)); e1 = int(rng.integers(s1 + 1, La + 1))
                    s2 = int(rng.integers(0, Lb)); e2 = int(rng.integers(s2 + 1, Lb + 1))
                    args += ["-r", f"{ca}:{s1}-{e1}", "-r2", f"{cb}:{s2}-{e2}"]
                    i0, i1 = (int(x) for x in clr.extent((ca, s1, e1))); j0, j1 = (int(x) for x in clr.extent((cb, s2, e2)))
                res2 = CliRunner().invoke(cli, args + [path])
                c.feature("cli:dump-b:fill-lower" if fill else "cli:dump-b:region")
                if res2.exit_code != 0:
                    c.fail("dump-b-failed" + (":fill-lower" if fill else ""), f"`cooler {' '.join(args)}` exit {res2.exit_code}: "
                           f"{type(res2.exception).__name__}: {res2.exception}")
                    continue
                got = sorted((int(f[0]), int(f[1]), int(f[2]), float(f[3]) if f[3] not in ("", "nan") else float("nan"))
                             for f in (ln.split("\t") for ln in res2.output.strip("\n").split("\n") if ln))
                if fill:
                    recs = [(i, j, int(D[i, j])) for i in range(i0, i1) for j in range(j0, j1) if D[i, j] != 0]
                else:
                    recs = [(i, j, P[(i, j)]) for (i, j) in sorted(P) if i0 <= i < i1 and j0 <= j < j1]
                wantb = sorted((i, j, v, v * W["weight"][i] * W["weight"][j]) for i, j, v in recs)
                okb = len(got) == len(wantb) and all(
                    g[:3] == w_[:3] and ((np.isnan(g[3]) and np.isnan(w_[3])) or np.isclose(g[3], w_[3], rtol=1e-12, atol=0))
                    for g, w_ in zip(got, wantb))
                c.check(okb, "dump-balanced-wrong" + (":fill-lower" if fill else ":region"),
                        f"`cooler {' '.join(args)}` rows != raw*w1*w2 over the selected window",
                        lambda: {"got": got[:8], "want": wantb[:8]})
            c.nontrivial("cli", cid, n, symm)
            ctx.sample({"cli": "cooler dump -b", "n": n, "rows": len(rows)}, limit=2)
        os.remove(path.split("::")[0])
