"""C13 Invalid input or a failed write never yields a cooler nor harms its neighbours."""
from __future__ import annotations

import json
import os
import subprocess
import sys

import h5py
import numpy as np
import pandas as pd

from .. import faults, gen, h5state, probes
from ..build import make_cooler
from ..core import PY, REPO, VERIF

RULE = ("files pre-populated with 0-3 neighbour collections (root and nested) plus foreign groups/datasets/attributes; "
        "producers: ordered create, unordered create, merge, coarsen (incl. into /resolutions/N); destinations: new "
        "file (root/nested), root of a populated non-cooler file, new group of a populated file, existing empty group, "
        "existing non-cooler group; faults: one invalid record of each kind (bin id = nbins, -1, lower-triangle, in-chunk "
        "duplicate) at EVERY chunk index and first/middle/last position, an iterator exception before EVERY chunk index "
        "0..m, an exception at EVERY executed line of the writer/index/info/merge/coarsen code (sys.monitoring LINE "
        "failpoints; quick tier: stratified sample + all of the last chunk and index/info phase), process exit "
        "(os._exit) at chunk boundaries in a subprocess. After each fault: error raised (invalid input), destination "
        "not recognised by is_cooler / not listed, every neighbour digest and foreign object unchanged. Non-trivial: "
        "fault delivered; distinct = (producer, destination kind, fault kind, position)")
ASSUMPTIONS = ["destinations that already hold a cooler and neighbours nested under the destination are excluded (property)",
               "a kill inside an HDF5 library call is not injected (HDF5 offers no atomicity there)",
               "a missing destination counts as 'not recognised' whether is_cooler returns False or raises KeyError "
               "(that defect belongs to C15)"]
MIN_NONTRIVIAL = {"quick": 600, "thorough": 6000}
REQUIRED_FEATURES = ["fault:invalid-record:bin=nbins", "fault:invalid-record:bin=-1", "fault:invalid-record:lower-triangle",
                     "fault:invalid-record:duplicate", "fault:iterator-exception", "fault:line-failpoint",
                     "fault:process-exit", "producer:create", "producer:create-unordered", "producer:merge",
                     "producer:coarsen", "dest:new-file-root", "dest:new-file-nested", "dest:populated-root",
                     "dest:new-group", "dest:existing-empty-group", "dest:existing-noncooler-group", "dest:existing-link-alias",
                     "phase:write_pixels", "phase:create", "phase:write_info", "phase:write_indexes",
                     "options:metadata", "options:assembly+h5opts", "fault:invalid-record-in-chunk>1e6-rows",
                     "producer:create_from_unordered(direct, defaults)", "producer:zoomify:missing-column"]
SHARD_TIMEOUT = {"quick": 1800, "thorough": 7200}

DESTS = ["new-file-root", "new-file-nested", "populated-root", "new-group", "existing-empty-group",
         "existing-noncooler-group", "existing-link-alias"]


def plan(tier, seed):
    n = 16 if tier == "quick" else 48
    s = [{"kind": "input", "sub": i, "cases": 5 if tier == "quick" else 14} for i in range(n)]
    s += [{"kind": "line", "sub": i, "cases": 3 if tier == "quick" else 6, "all": tier != "quick"}
          for i in range(n)]
    s += [{"kind": "exit", "sub": i, "cases": 3 if tier == "quick" else 8} for i in range(4 if tier == "quick" else 12)]
    s += [{"kind": "bigchunk", "sub": i, "cases": 1} for i in range(2 if tier == "quick" else 6)]
    s += [{"kind": "zoomfail", "sub": i, "cases": 6 if tier == "quick" else 30} for i in range(1 if tier == "quick" else 4)]
    return s


def run(ctx, shard):
    probes.activate(ctx)
    rng0 = ctx.rng("plan", shard["kind"], shard["sub"])
    for i in range(shard["cases"]):
        seedk = int(rng0.integers(2**31))
        rng = ctx.rng("case", shard["kind"], shard["sub"], i, seedk)
        if shard["kind"] == "input":
            input_faults(ctx, shard, i, rng)
        elif shard["kind"] == "line":
            line_faults(ctx, shard, i, rng)
        elif shard["kind"] == "bigchunk":
            big_chunk_faults(ctx, shard, rng)
        elif shard["kind"] == "zoomfail":
            zoomify_faults(ctx, shard, i, rng)
        else:
            exit_faults(ctx, shard, i, rng)


# ------------------------------------------------------------------ environment
class Env:
    """A scratch directory with a destination file and its neighbours."""

    def __init__(self, ctx, rng, dest_kind, bt, symm):
        self.d = ctx.newdir()
        self.path = os.path.join(self.d, "dest.cool")
        self.dest_kind = dest_kind
        self.neigh = {}
        self.foreign = {}
        n = gen.bt_nbins(bt)
        if dest_kind in ("new-file-root", "new-file-nested"):
            self.group = "/" if dest_kind == "new-file-root" else "/x/y"
            self.mode = "w" if rng.random() < 0.5 else "a"
            return
        self.mode = "a"
        # populated file: 1-3 neighbour collections + foreign objects
        paths = ["/n1", "/g/n2", "/resolutions/1000"][: int(rng.integers(1, 4))]
        for p in paths:
            nbt = bt if rng.random() < 0.5 else [["q", [0, 3, 6, 9]]]
            P = gen.gen_pixels(rng, gen.bt_nbins(nbt), True, "sparse70")
            make_cooler(self.path + "::" + p, nbt, P, mode="a")
        with h5py.File(self.path, "r+") as f:
            f.attrs["lab"] = "foreign root attribute"
            f.attrs["answer"] = 42
            fg = f.create_group("/foreign")
            fg.create_dataset("data", data=np.arange(17))
            fg.attrs["note"] = "keep me"
            f.create_dataset("/loose_dataset", data=np.arange(5.0))
            if dest_kind == "existing-empty-group":
                f.create_group("/dst")
            elif dest_kind == "existing-noncooler-group":
                g = f.create_group("/dst")
                g.create_dataset("junk", data=np.arange(3))
                g.attrs["format"] = "something else"
            elif dest_kind == "existing-link-alias":
                # the destination path is a second name (hard or soft link) of a neighbour collection: creating
                # there replaces the NAME; the neighbour it pointed to is another collection and must survive
                if rng.random() < 0.5:
                    f["/dst"] = f[paths[0]]
                else:
                    f["/dst"] = h5py.SoftLink(paths[0])
        self.group = {"populated-root": "/", "new-group": "/fresh/dst", "existing-empty-group": "/dst",
                      "existing-noncooler-group": "/dst", "existing-link-alias": "/dst"}[dest_kind]
        if dest_kind == "new-group" and rng.random() < 0.5:
            self.group = "/resolutions/5000"
        self.snapshot()

    @property
    def uri(self):
        return self.path + "::" + self.group

    def snapshot(self):
        import cooler
        self.neigh = {}
        with h5py.File(self.path, "r") as f:
            for p in cooler.fileops.list_coolers(self.path):
                if p == self.group and self.dest_kind == "existing-link-alias":
                    continue
                self.neigh[p] = h5state.content_digest(f[p], skip_attrs=())
            self.foreign = {"attr:lab": f.attrs.get("lab"), "attr:answer": int(f.attrs.get("answer", -1)),
                            "foreign/data": f["/foreign/data"][:].tolist(), "foreign@note": f["/foreign"].attrs.get("note"),
                            "loose": f["/loose_dataset"][:].tolist()}

    def verify(self, c, what, completed=False):
        """destination not a cooler; neighbours and foreign objects intact.
        completed=True: the fault hit after the last write (format attribute already set): the
        destination may then be a cooler, but it must be a complete, schema-valid one."""
        import cooler

        c.ctx.oracle_evals += 1
        if not os.path.exists(self.path):
            c.check(not self.neigh, f"neighbour-file-vanished:{what}", "the populated file no longer exists")
            return
        if not h5py.is_hdf5(self.path):
            c.check(not self.neigh, f"neighbour-file-corrupt:{what}", "the file is no longer HDF5")
            return
        try:
            rec = cooler.fileops.is_cooler(self.uri)
        except KeyError:
            rec = False
        listing = cooler.fileops.list_coolers(self.path)
        if completed and rec:
            bad = h5state.validate_uri(self.path, self.group)
            c.check(not bad, f"late-fault-left-invalid-cooler:{what}",
                    f"a fault after the last write left a recognised but invalid collection: {bad[:2]}")
            listing = [p for p in listing if p != self.group]
        elif self.dest_kind == "existing-link-alias":
            # the name did hold a cooler before (the property's not-recognised clause is stated for the other case)
            listing = [p for p in listing if p != self.group]
        else:
            c.check(not rec, f"failed-destination-recognised:{what}",
                    f"after {what} the destination {self.group} ({self.dest_kind}) is recognised by is_cooler")
            c.check(self.group not in listing, f"failed-destination-listed:{what}",
                    f"after {what} the destination {self.group} is listed by list_coolers: {listing}")
        c.check(sorted(listing) == sorted(self.neigh), f"listing-changed:{what}",
                f"after {what} list_coolers = {listing}, neighbours were {sorted(self.neigh)}")
        if self.neigh:
            with h5py.File(self.path, "r") as f:
                for p, dg in self.neigh.items():
                    ok = p in f and h5state.content_digest(f[p], skip_attrs=()) == dg
                    c.check(ok, f"neighbour-changed:{what}", f"after {what} neighbour {p} no longer reads back unchanged")
                cur = {"attr:lab": f.attrs.get("lab"), "attr:answer": int(f.attrs.get("answer", -1)),
                       "foreign/data": f["/foreign/data"][:].tolist() if "/foreign/data" in f else None,
                       "foreign@note": f["/foreign"].attrs.get("note") if "/foreign" in f else None,
                       "loose": f["/loose_dataset"][:].tolist() if "/loose_dataset" in f else None}
            c.check(cur == self.foreign, f"foreign-object-changed:{what}", f"after {what} unrelated attributes/datasets changed",
                    {"before": self.foreign, "after": cur})


def chunked(df, rng, k):
    cuts = sorted(set([0, len(df)] + rng.integers(0, len(df) + 1, size=k - 1).tolist())) if len(df) else [0, 0]
    return [df.iloc[a:b].reset_index(drop=True) for a, b in zip(cuts[:-1], cuts[1:])]


# ------------------------------------------------------------------ (1)+(2) input faults
def input_faults(ctx, shard, i, rng):
    import cooler
    from cooler.create import BadInputError

    idx = shard["sub"] * 10 + i
    dest_kind = DESTS[idx % len(DESTS)]
    unordered = bool(idx % 3 == 1)
    symm = bool(idx % 4 != 3)
    bt = gen.gen_bt(rng, None, max_chroms=3, max_bins=10)
    n = gen.bt_nbins(bt)
    P = gen.gen_pixels(rng, n, symm, "sparse70") or {(0, 0): 1}
    df = gen.pixels_frame(P)
    chunks = chunked(df, rng, int(rng.integers(1, 5)))
    m = len(chunks)
    bins = gen.bt_frame(bt)
    kinds = ["bin=nbins", "bin=-1", "duplicate"] + (["lower-triangle"] if symm and n > 1 else [])
    plans = []
    for ci in range(m):
        for kind in kinds:
            for pos in ("first", "middle", "last"):
                plans.append(("invalid", kind, ci, pos))
    for ci in range(m + 1):
        plans.append(("iterexc", None, ci, None))
    for x, (ftype, kind, ci, pos) in enumerate(plans):
        cid = f"in:{shard['sub']}:{i}:{x}"
        if not ctx.want(cid):
            continue
        env = Env(ctx, rng, dest_kind, bt, symm)
        desc = {"producer": "create-unordered" if unordered else "create", "dest": dest_kind, "group": env.group,
                "fault": ftype, "kind": kind, "chunk": ci, "pos": pos, "chunks": [len(ch) for ch in chunks], "symm": symm}
        with ctx.case(cid, desc) as c:
            c.feature(f"producer:{desc['producer']}", f"dest:{dest_kind}")
            bad_chunks = [ch.copy() for ch in chunks]
            if ftype == "invalid":
                ch = bad_chunks[ci]
                if kind == "duplicate" and len(ch) == 0:
                    continue
                at = {"first": 0, "middle": len(ch) // 2, "last": len(ch)}[pos]
                if kind == "bin=nbins":
                    row = {"bin1_id": n - 1 if symm else n, "bin2_id": n, "count": 1}
                    if not symm and rng.random() < 0.5:
                        row = {"bin1_id": n, "bin2_id": 0, "count": 1}
                elif kind == "bin=-1":
                    row = {"bin1_id": -1, "bin2_id": 0, "count": 1} if rng.random() < 0.5 else {"bin1_id": 0, "bin2_id": -1, "count": 1}
                elif kind == "lower-triangle":
                    a = int(rng.integers(1, n))
                    row = {"bin1_id": a, "bin2_id": int(rng.integers(0, a)), "count": 1}
                else:
                    src = ch.iloc[int(rng.integers(len(ch)))]
                    row = {"bin1_id": int(src["bin1_id"]), "bin2_id": int(src["bin2_id"]), "count": 7}
                bad_chunks[ci] = pd.concat([ch.iloc[:at], pd.DataFrame([row]), ch.iloc[at:]], ignore_index=True).astype(np.int64)
                c.feature(f"fault:invalid-record:{kind}")
                if kind != "bin=-1" and rng.random() < 0.4:
                    # the caller's id columns may be unsigned or narrower (all ids here are >= 0 and small)
                    idt = [np.uint32, np.uint64, np.uint16, np.int32][int(rng.integers(4))]
                    bad_chunks = [b_.astype({"bin1_id": idt, "bin2_id": idt}) for b_ in bad_chunks]
                    c.feature(f"input-id-dtype:{np.dtype(idt).name}")

                def it():
                    for ch_ in bad_chunks:
                        yield ch_
            else:
                c.feature("fault:iterator-exception")

                def it():
                    for k_, ch_ in enumerate(bad_chunks):
                        if k_ == ci:
                            raise RuntimeError("input iterator failed")
                        yield ch_
                    if ci == len(bad_chunks):
                        raise RuntimeError("input iterator failed")
            raised = None
            kw = dict(symmetric_upper=symm, mode=env.mode, ordered=not unordered)
            if not symm:
                kw["triucheck"] = False
            if unordered:
                kw["mergebuf"] = int([2, 10**6][int(rng.integers(2))])
            opt = x % 3
            if opt == 1:
                kw["metadata"] = {"sample": "s1", "n": 3}
                c.feature("options:metadata")
            elif opt == 2:
                kw["assembly"] = "hg19"
                kw["h5opts"] = {"compression": "lzf"}
                c.feature("options:assembly+h5opts")
            try:
                if unordered and symm and x % 4 == 3:
                    # the lower-level public entry point, every option at its default (symmetric-upper storage)
                    from cooler.create import create_from_unordered
                    kw2 = {k_: v_ for k_, v_ in kw.items() if k_ not in ("symmetric_upper", "ordered")}
                    c.feature("producer:create_from_unordered(direct, defaults)")
                    create_from_unordered(env.uri, bins, it(), **kw2)
                else:
                    cooler.create_cooler(env.uri, bins, it(), **kw)
            except BadInputError as e:
                raised = "BadInputError"
            except RuntimeError as e:
                raised = "RuntimeError" if "input iterator failed" in str(e) else f"RuntimeError:{e}"
            except Exception as e:  # noqa
                raised = type(e).__name__
            what = f"{ftype}:{kind or 'iterator'}"
            if ftype == "invalid":
                c.check(raised == "BadInputError", f"invalid-input-not-rejected:{kind}:{'unordered' if unordered else 'ordered'}",
                        f"a stream with an invalid record ({kind}) in chunk {ci} ({pos}) was not rejected with BadInputError "
                        f"(outcome: {raised})")
            else:
                c.check(raised is not None, "iterator-exception-swallowed", "the input iterator's exception did not propagate")
            if raised is not None:
                env.verify(c, what)
                c.nontrivial(desc["producer"], dest_kind, ftype, kind, ci, pos, m)
            ctx.extra.setdefault("faults_delivered", {})
            key = f"{ftype}:{kind or '-'}"
            ctx.extra["faults_delivered"][key] = ctx.extra["faults_delivered"].get(key, 0) + 1
            if x < 2:
                ctx.sample(desc, limit=6)


# ------------------------------------------------------------------ (3) line failpoints
def make_producer(ctx, rng, idx, env, bt, symm):
    """Return (name, callable) where callable() runs the producer writing to env.uri."""
    import cooler

    n = gen.bt_nbins(bt)
    bins = gen.bt_frame(bt)
    which = ["create", "create-unordered", "merge", "coarsen"][idx % 4]
    P = gen.gen_pixels(rng, n, symm, "sparse70") or {(0, 0): 2}
    if which in ("create", "create-unordered"):
        df = gen.pixels_frame(P)
        chunks = chunked(df, rng, int(rng.integers(1, 4)))
        kw = dict(symmetric_upper=symm, mode=env.mode, ordered=which == "create")
        if not symm:
            kw["triucheck"] = False
        if which == "create-unordered":
            kw["mergebuf"] = 3
        if idx % 8 < 4:
            kw["metadata"] = {"sample": "s1", "n": 3}
            kw["assembly"] = "mm10"

        def run():
            cooler.create_cooler(env.uri, bins, iter([ch.copy() for ch in chunks]), **kw)
    elif which == "merge":
        ins = []
        for j in range(2):
            u = os.path.join(env.d, f"in{j}.cool")
            make_cooler(u, bt, gen.gen_pixels(rng, n, symm, "sparse70") or {(0, 0): 1}, symm=symm)
            ins.append(u)

        def run():
            cooler.merge_coolers(env.uri, ins, mergebuf=int(3), mode=env.mode)
    else:
        src = os.path.join(env.d, "base.cool")
        fine = [[c_, list(range(0, e[-1] + 1))] if e[-1] <= 12 else [c_, e] for c_, e in bt]
        nf = gen.bt_nbins(fine)
        make_cooler(src, fine, gen.gen_pixels(rng, nf, symm, "sparse30") or {(0, 0): 1}, symm=symm)

        def run():
            cooler.coarsen_cooler(src, env.uri, 2, chunksize=5, mode=env.mode)
    return which, run


def line_faults(ctx, shard, i, rng):
    idx = shard["sub"] * 10 + i
    dest_kind = DESTS[(idx // 4) % len(DESTS)]
    symm = bool(idx % 5 != 4)
    bt = gen.gen_bt(rng, None, max_chroms=2, max_bins=8)
    codes = faults.writer_codes()
    # counting run
    env0 = Env(ctx, ctx.rng("env", shard["sub"], i), dest_kind, bt, symm)
    which, run0 = make_producer(ctx, ctx.rng("prod", shard["sub"], i), idx, env0, bt, symm)
    with faults.LineFailpoints(codes) as fp:
        run0()
    N = fp.count
    trace = list(fp.trace)
    if N == 0:
        raise RuntimeError("failpoint counting run saw no line events")
    if shard["all"] or N <= 60:
        targets = list(range(1, N + 1))
    else:
        # stratified sample + everything from the last write_pixels chunk onwards (index/info phase)
        last_wp = max([k for k, (fn, _) in enumerate(trace) if fn == "write_pixels"] or [0])
        tail = list(range(max(1, last_wp - 12), N + 1))
        head = sorted(set(int(x) for x in np.linspace(1, max(2, last_wp - 13), 25)))
        targets = sorted(set(head + tail))
    for k in targets:
        cid = f"ln:{shard['sub']}:{i}:{k}"
        if not ctx.want(cid):
            continue
        env = Env(ctx, ctx.rng("env", shard["sub"], i), dest_kind, bt, symm)
        which, runk = make_producer(ctx, ctx.rng("prod", shard["sub"], i), idx, env, bt, symm)
        phase = trace[k - 1][0] if k - 1 < len(trace) else "?"
        desc = {"producer": which, "dest": dest_kind, "group": env.group, "fault": "line-failpoint", "event": k, "of": N,
                "at": list(trace[k - 1]) if k - 1 < len(trace) else None, "symm": symm}
        with ctx.case(cid, desc) as c:
            c.feature(f"producer:{which}", f"dest:{dest_kind}", "fault:line-failpoint", f"phase:{phase}")
            delivered = False
            with faults.LineFailpoints(codes) as fp:
                fp.target = k
                fp.exc_class = faults.FAULT_CLASSES[k % 3]     # plain, OSError-like and RuntimeError-like failures
                c.feature(f"fault-class:{fp.exc_class.__name__}")
                try:
                    runk()
                except faults.InjectedFault:
                    delivered = True
                except Exception as e:  # noqa  (e.g. the fault surfaced wrapped in another exception)
                    delivered = fp.fired_at is not None
                    if not delivered:
                        raise
            if not delivered:
                if fp.fired_at is None:
                    c.inconclusive(f"planned failpoint {k}/{N} was never reached")
                else:
                    # the injected exception was swallowed by the code under test and the run completed
                    c.fail(f"injected-exception-swallowed:{phase}", f"an exception raised at {fp.fired_at} was swallowed")
                continue
            # events after the final write_info call: every write is done, the collection is complete
            last_info = max([j for j, (fn, _) in enumerate(trace) if fn == "write_info"] or [len(trace)]) + 1
            late = k > last_info
            if late:
                c.feature("fault:line-failpoint:after-last-write")
            env.verify(c, f"line-failpoint:{phase}", completed=late)
            c.nontrivial(which, dest_kind, "line", phase, trace[k - 1][1] if k - 1 < len(trace) else k, k)
            fd = ctx.extra.setdefault("failpoints_delivered_by_phase", {})
            fd[phase] = fd.get(phase, 0) + 1
            if k == targets[0]:
                ctx.sample(desc, limit=6)


# ------------------------------------------------------------------ (4) process exit
CHILD = r"""
import json, os, sys
spec = json.load(open(sys.argv[1]))
import warnings; warnings.simplefilter("ignore")
import numpy as np, pandas as pd, cooler
bins = pd.DataFrame(spec["bins"], columns=["chrom", "start", "end"])
chunks = [pd.DataFrame(ch, columns=["bin1_id", "bin2_id", "count"]).astype(np.int64) for ch in spec["chunks"]]
def it():
    for k, ch in enumerate(chunks):
        if k == spec["die_before"]:
            os._exit(9)
        yield ch
    if spec["die_before"] == len(chunks):
        os._exit(9)
kw = dict(symmetric_upper=spec["symm"], mode=spec["mode"], ordered=spec["ordered"])
if not spec["symm"]:
    kw["triucheck"] = False
if not spec["ordered"]:
    kw["mergebuf"] = 3
if spec.get("metadata"):
    kw["metadata"] = spec["metadata"]
cooler.create_cooler(spec["uri"], bins, it(), **kw)
os._exit(0)
"""


def exit_faults(ctx, shard, i, rng):
    idx = shard["sub"] * 10 + i
    dest_kind = DESTS[idx % len(DESTS)]
    symm = bool(idx % 3 != 2)
    ordered = bool(idx % 2 == 0)
    bt = gen.gen_bt(rng, None, max_chroms=2, max_bins=8)
    bt = [[c_.replace(" ", "_"), e] for c_, e in bt]
    n = gen.bt_nbins(bt)
    P = gen.gen_pixels(rng, n, symm, "sparse70") or {(0, 0): 1}
    chunks = chunked(gen.pixels_frame(P), rng, int(rng.integers(2, 4)))
    for die in range(len(chunks) + 1):
        cid = f"ex:{shard['sub']}:{i}:{die}"
        if not ctx.want(cid):
            continue
        env = Env(ctx, rng, dest_kind, bt, symm)
        spec = {"bins": gen.bt_bins_list(bt), "chunks": [ch.values.tolist() for ch in chunks], "die_before": die,
                "symm": symm, "mode": env.mode, "ordered": ordered, "uri": env.uri,
                "metadata": {"k": "v"} if die % 2 == 0 else None}
        sp = os.path.join(env.d, "spec.json")
        with open(sp, "w") as f:
            json.dump(spec, f)
        script = os.path.join(env.d, "child.py")
        with open(script, "w") as f:
            f.write(CHILD)
        desc = {"producer": "create" if ordered else "create-unordered", "dest": dest_kind, "group": env.group,
                "fault": "process-exit", "die_before_chunk": die, "chunks": [len(ch) for ch in chunks]}
        with ctx.case(cid, desc) as c:
            c.feature(f"producer:{desc['producer']}", f"dest:{dest_kind}", "fault:process-exit")
            envv = dict(os.environ)
            envv["PYTHONPATH"] = os.path.join(REPO, "src")
            envv["TMPDIR"] = env.d
            try:
                p = subprocess.run([PY, script, sp], env=envv, timeout=300, stdout=subprocess.PIPE, stderr=subprocess.PIPE)
            except subprocess.TimeoutExpired:
                c.inconclusive("child timed out")
                continue
            if p.returncode != 9:
                c.inconclusive(f"child exited with {p.returncode} instead of dying at chunk {die}: {p.stderr[-300:]!r}")
                continue
            env.verify(c, "process-exit")
            c.nontrivial(desc["producer"], dest_kind, "exit", die, len(chunks))
            ctx.extra["process_exits_delivered"] = ctx.extra.get("process_exits_delivered", 0) + 1
            if die == 0:
                ctx.sample(desc, limit=6)


def big_chunk_faults(ctx, shard, rng):
    """One chunk of more than a million records (scale boundary: the library's internal block size is 10**6 rows):
    the invalid record sits at / around row k * 10**6 of the caller's single chunk."""
    import cooler
    from cooler.create import BadInputError

    nb = 1500
    bt = [["chrBig", list(range(0, nb * 10 + 1, 10))]]
    bins = gen.bt_frame(bt)
    i_, j_ = np.triu_indices(nb)
    m = 1_000_000 + int(rng.integers(3, 2000))
    base = pd.DataFrame({"bin1_id": i_[:m].astype(np.int64), "bin2_id": j_[:m].astype(np.int64),
                         "count": np.ones(m, dtype=np.int32)})
    variants = [("duplicate", 999_999, 1_000_000), ("duplicate", 999_998, 1_000_001), ("bin=nbins", None, 1_000_000),
                ("bin=-1", None, 1_000_001), ("lower-triangle", None, 1_000_000), ("duplicate", 5, m - 1)]
    k0 = shard["sub"] * 3
    for v, (kind, src, at) in enumerate(variants[k0 % len(variants):] + variants[:k0 % len(variants)]):
        if v >= 3:
            break
        unordered = bool((shard["sub"] + v) % 2)
        cid = f"bigchunk:{shard['sub']}:{v}"
        if not ctx.want(cid):
            continue
        df = base.copy()
        if kind == "duplicate":
            df.loc[at, ["bin1_id", "bin2_id"]] = df.loc[src, ["bin1_id", "bin2_id"]].to_numpy()
            df.loc[at, "count"] = 7                      # same pixel, another value
        elif kind == "bin=nbins":
            df.loc[at, "bin2_id"] = nb
        elif kind == "bin=-1":
            df.loc[at, "bin1_id"] = -1
        else:
            a, b = int(df.loc[at, "bin1_id"]), int(df.loc[at, "bin2_id"])
            if a == b:
                at += 1
                a, b = int(df.loc[at, "bin1_id"]), int(df.loc[at, "bin2_id"])
            df.loc[at, ["bin1_id", "bin2_id"]] = [b, a]
        env = Env(ctx, rng, ["new-file-root", "new-group"][v % 2], [["q", [0, 3, 6, 9]]], True)
        desc = {"producer": "create-unordered" if unordered else "create", "dest": env.dest_kind, "rows_in_chunk": m,
                "fault": kind, "at_row": at, "copy_of_row": src}
        with ctx.case(cid, desc) as c:
            c.feature("fault:invalid-record-in-chunk>1e6-rows", f"producer:{desc['producer']}", f"dest:{env.dest_kind}")
            raised = None
            try:
                if unordered:
                    cooler.create_cooler(env.uri, bins, iter([df]), ordered=False, mode=env.mode, mergebuf=10**7)
                else:
                    cooler.create_cooler(env.uri, bins, df if v % 2 else iter([df]), ordered=True, mode=env.mode)
            except BadInputError:
                raised = "BadInputError"
            except Exception as e:  # noqa
                raised = type(e).__name__
            c.check(raised == "BadInputError", f"invalid-input-not-rejected:{kind}:chunk>1e6-rows",
                    f"a single chunk of {m} records with an invalid record ({kind}) at row {at}"
                    f"{'' if src is None else ' (same pixel as row ' + str(src) + ')'} was not rejected with BadInputError "
                    f"(outcome: {raised})")
            env.verify(c, f"invalid:{kind}:chunk>1e6-rows")
            c.nontrivial("bigchunk", kind, at, src, unordered)


def zoomify_faults(ctx, shard, i, rng):
    """zoomify_cooler / `cooler zoomify` copies its base level table by table: a request that fails during that copy
    (a value column the base does not have) must not leave anything recognised as a cooler in the output file."""
    import cooler

    cid = f"zoomfail:{shard['sub']}:{i}"
    if not ctx.want(cid):
        return
    b = int([1, 10, 1000][int(rng.integers(3))])
    bt = [["chr1", gen.fixed_edges(int(rng.integers(5, 20)) * b, b)], ["chr2", gen.fixed_edges(int(rng.integers(3, 9)) * b, b)]]
    n = gen.bt_nbins(bt)
    P = gen.gen_pixels(rng, n, True, "sparse70") or {(0, 1): 2}
    d = ctx.newdir()
    base = os.path.join(d, "base.cool")
    make_cooler(base, bt, P)
    out = os.path.join(d, "out.mcool")
    via_cli = bool(i % 2)
    with ctx.case(cid, {"producer": "zoomify", "fault": "requested value column missing from the base", "cli": via_cli}) as c:
        c.feature("producer:zoomify:missing-column")
        raised = None
        try:
            if via_cli:
                from click.testing import CliRunner
                from cooler.cli import cli
                r = CliRunner().invoke(cli, ["zoomify", base, "-o", out, "-r", f"{2 * b},{4 * b}", "--field", "count", "--field", "missing"])
                if r.exit_code != 0:
                    raised = type(r.exception).__name__
            else:
                cooler.zoomify_cooler(base, out, [2 * b, 4 * b], chunksize=10**6, columns=["count", "missing"])
        except Exception as e:  # noqa
            raised = type(e).__name__
        if not c.check(raised is not None, "zoomify-with-missing-column-accepted", "a value column the base does not have was accepted"):
            return
        listing = cooler.fileops.list_coolers(out) if os.path.exists(out) and h5py.is_hdf5(out) else []
        c.check(listing == [], "failed-destination-listed:zoomify:missing-column",
                f"after the failed zoomify ({raised}) list_coolers(out) = {listing}")
        rec = os.path.exists(out) and h5py.is_hdf5(out) and cooler.fileops.is_cooler(f"{out}::/resolutions/{b}")
        c.check(not rec, "failed-destination-recognised:zoomify:missing-column",
                f"after the failed zoomify ({raised}) {os.path.basename(out)}::/resolutions/{b} is recognised by is_cooler")
        c.nontrivial("zoomfail", b, n, via_cli)
