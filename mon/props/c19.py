"""C19 Region and URI strings parse to exactly what they denote, or are refused."""
from __future__ import annotations

import os

import numpy as np

from .. import gen, model
from ..build import make_cooler

RULE = ("(string, denotation) pairs generated from the region grammar (names without ':', plain / "
        "comma / decimal-mantissa x unit coordinates denoting integers, open/closed ends, "
        "whitespace); exhaustive sweep of all <=3-decimal mantissas x {k,M,G} below the tier bound; "
        "malformed classes of the property; URI spellings; end-to-end fetches. A case is "
        "non-trivial when the string has explicit coordinates or is malformed; distinct = distinct strings")
ASSUMPTIONS = ["ref_coord (decimal.Decimal scaling) is the denotation of a coordinate token",
               "trailing text after a complete region and names containing ':' are outside the domain"]
EXHAUSTIVE = {"quick": "all mantissas m/1000, m < 300000, x unit k; m < 20000 x {M,G,kb,Mb}",
              "thorough": "all mantissas m/1000, m < 20,000,000 x unit k; m < 2,000,000 x {M,G}"}
MIN_NONTRIVIAL = {"quick": 1000, "thorough": 10000}

NAMES = ["chr1", "chrX", "2", "HLA-DRB1.1", "chr 1", "chrUn_gl000220", "1-2", "a.b-c", "X", "chr1_random",
         "scaffold-12.3", "7", "MT", "GL000207.1", "chr-1", "a b c", "ctg7,1", "ctg71"]
UNITS = ["k", "K", "kb", "Kb", "KB", "M", "m", "Mb", "MB", "G", "g", "Gb", "gb"]
MULT = {"k": 10**3, "m": 10**6, "g": 10**9}


def plan(tier, seed):
    shards = []
    if tier == "quick":
        step = 300000 // 12
        for i in range(12):
            shards.append({"kind": "mantissa", "lo": i * step, "hi": (i + 1) * step, "units": ["k"]})
        shards.append({"kind": "mantissa", "lo": 0, "hi": 20000, "units": ["M", "G", "kb", "Mb"]})
        for i in range(3):
            shards.append({"kind": "grammar", "n": 25000, "sub": i})
        shards.append({"kind": "malformed", "n": 4000})
        shards.append({"kind": "uri"})
        shards.append({"kind": "e2e", "n": 6})
        shards.append({"kind": "corners"})
    else:
        step = 20_000_000 // 40
        for i in range(40):
            shards.append({"kind": "mantissa", "lo": i * step, "hi": (i + 1) * step, "units": ["k"]})
        for i in range(8):
            shards.append({"kind": "mantissa", "lo": i * 250000, "hi": (i + 1) * 250000, "units": ["M", "G"]})
        for i in range(16):
            shards.append({"kind": "grammar", "n": 200000, "sub": i})
        shards.append({"kind": "malformed", "n": 60000})
        shards.append({"kind": "uri"})
        shards.append({"kind": "e2e", "n": 40})
        shards.append({"kind": "corners"})
    return shards


def fmt_coord(rng, v, style=None):
    """Write integer v in one of the grammar's spellings; returns (text, style)."""
    if style is None:
        style = ["plain", "comma", "unit", "unit"][int(rng.integers(4))]
    if style == "plain":
        return str(v), style
    if style == "comma":
        return f"{v:,}", style
    unit = UNITS[int(rng.integers(len(UNITS)))]
    mult = MULT[unit[0].lower()]
    # mantissa with as many decimals as needed (at most 9) so that product is exactly v
    q, r = divmod(v, mult)
    if r == 0:
        man = str(q) if rng.random() < 0.6 else f"{q}."
        if rng.random() < 0.2:
            man = f"{q}.0"
    else:
        digits = len(str(mult)) - 1
        frac = f"{r:0{digits}d}".rstrip("0")
        man = f"{q}.{frac}"
    if rng.random() < 0.15 and q >= 1000 and "." not in man:
        man = f"{q:,}"
    elif "." in man and rng.random() < 0.2:
        man += "0" * int(rng.integers(1, 9))        # fixed-precision output: surplus zeros
    return man + unit, "unit"


def gen_coord_value(rng):
    r = rng.random()
    if r < 0.25:
        return int(rng.integers(0, 3000))
    if r < 0.5:
        return int(rng.integers(0, 10**6))
    if r < 0.8:
        # values with few significant digits: typical humanized numbers
        m = int(rng.integers(1, 10**int(rng.integers(1, 5))))
        return m * 10**int(rng.integers(0, 7))
    return int(rng.integers(0, 3 * 10**9))


def run(ctx, shard):
    from cooler import util

    kind = shard["kind"]
    if kind == "mantissa":
        run_mantissa(ctx, shard, util)
    elif kind == "grammar":
        run_grammar(ctx, shard, util)
    elif kind == "malformed":
        run_malformed(ctx, shard, util)
    elif kind == "uri":
        run_uri(ctx, util)
    elif kind == "e2e":
        run_e2e(ctx, shard)
    elif kind == "corners":
        run_corners(ctx, util)


def run_mantissa(ctx, shard, util):
    lo, hi = shard["lo"], shard["hi"]
    with ctx.case(f"mantissa:{lo}-{hi}", {"lo": lo, "hi": hi, "units": shard["units"]}) as c:
        nbad = 0
        n = 0
        for unit in shard["units"]:
            mult = model.UNITS[unit.upper()]
            for m in range(lo, hi):
                q, r = divmod(m, 1000)
                if r == 0:
                    s = f"{q}{unit}"
                else:
                    s = f"{q}.{r:03d}".rstrip("0") + unit
                want = m * mult // 1000
                spellings = [s]
                if m % 7 == 0:
                    # fixed-precision spellings ('%.4fk'): zeros padded up to and beyond the unit's exponent
                    spellings += [f"{q}.{r:03d}" + "0" * z + unit for z in (1, 4, 7)]
                for s in spellings:
                    n += 1
                    try:
                        got = util.parse_humanized(s)
                    except Exception as e:  # noqa
                        got = f"{type(e).__name__}"
                    if got != want:
                        nbad += 1
                        if nbad <= 3:
                            c.fail("coord-scaling-inexact" + (":zero-padded-mantissa" if s is not spellings[0] else ""),
                                   f"parse_humanized({s!r}) = {got}, denotes {want}", {"string": s})
        ctx.evaluations += n - 1
        ctx.oracle_evals += n
        ctx.bulk_distinct += n  # enumerated without repetition: distinct by construction
        ctx.extra["mantissa_strings"] = ctx.extra.get("mantissa_strings", 0) + n
        ctx.extra["mantissa_mismatches"] = ctx.extra.get("mantissa_mismatches", 0) + nbad
        if lo == 0:
            ctx.sample({"string": f"2.01{shard['units'][0]}", "denotes": 2010 * model.UNITS[shard["units"][0].upper()] // 1000})


def run_grammar(ctx, shard, util):
    rng = ctx.rng("grammar", shard["sub"])
    chromsizes = {n: 10**14 for n in NAMES}
    for k in range(shard["n"]):
        cid = f"g{shard['sub']}:{k}"
        if not ctx.want(cid):
            # keep the stream aligned
            pass
        name = NAMES[int(rng.integers(len(NAMES)))]
        form = int(rng.integers(6))
        a = gen_coord_value(rng)
        b = gen_coord_value(rng)
        s0, e0 = min(a, b), max(a, b)
        ws = lambda: ""  # noqa  (whitespace is not part of the property's grammar)
        if form == 0:
            s, den = f"{ws()}{name}{ws()}", (name, None, None)
        elif form == 1:
            ts, _ = fmt_coord(rng, s0)
            s, den = f"{name}:{ws()}{ts}{ws()}-{ws()}", (name, s0, None)
        else:
            ts, st1 = fmt_coord(rng, s0)
            te, st2 = fmt_coord(rng, e0)
            s, den = f"{ws()}{name}:{ws()}{ts}{ws()}-{ws()}{te}{ws()}", (name, s0, e0)
        if not ctx.want(cid):
            continue
        with ctx.case(cid, {"string": s, "denotes": list(den)}) as c:
            # independent denotation of the coordinate tokens actually written
            if den[1] is not None:
                body = s.split(":", 1)[1]
                t1, _, t2 = body.partition("-")
                assert model.ref_coord(t1) == den[1], (s, t1)
                if den[2] is not None:
                    assert model.ref_coord(t2) == den[2], (s, t2)
            try:
                got = util.parse_region_string(s)
            except ValueError as e:
                got = ("ValueError", str(e))
            c.check(tuple(got) == den, "region-string-wrong-denotation",
                    f"parse_region_string({s!r}) = {got}, denotes {den}", {"string": s})
            # parse_region with chromosome table: defaults and bounds
            try:
                got2 = util.parse_region(s, chromsizes)
            except ValueError as e:
                got2 = ("ValueError", str(e))
            want2 = (name, den[1] or 0, den[2] if den[2] is not None else chromsizes[name])
            c.check(tuple(got2) == want2, "region-wrong-defaults",
                    f"parse_region({s!r}) = {got2}, expected {want2}", {"string": s})
            # canonical formatters round trip
            if den[1] is not None and den[2] is not None:
                for f in (f"{name}:{den[1]}-{den[2]}", f"{name}:{den[1]:,}-{den[2]:,}"):
                    try:
                        rt = util.parse_region_string(f)
                    except ValueError as e:
                        rt = ("ValueError", str(e))
                    c.check(tuple(rt) == den, "format-parse-not-identity",
                            f"parse(format({den})) = {rt} via {f!r}", {"string": f})
                # tuple form must pass through
                rt = util.parse_region(den, chromsizes)
                c.check(tuple(rt) == den, "tuple-region-changed", f"parse_region({den}) = {rt}")
                c.nontrivial("g", s)
            if k < 3:
                ctx.sample({"string": s, "denotes": list(den)})


MALFORMED_CLASSES = ["empty-name", "missing-hyphen", "negative", "non-numeric", "reversed",
                     "unknown-unit", "beyond-chromosome", "unknown-chromosome", "tuple-reversed",
                     "tuple-beyond", "tuple-negative"]


def run_malformed(ctx, shard, util):
    rng = ctx.rng("malformed")
    chromsizes = {"chr1": 1000, "chr2": 500, "HLA-DRB1.1": 50}
    names = list(chromsizes)
    for k in range(shard["n"]):
        cls = MALFORMED_CLASSES[k % len(MALFORMED_CLASSES)]
        name = names[int(rng.integers(len(names)))]
        L = chromsizes[name]
        a = int(rng.integers(0, L))
        b = int(rng.integers(a, L + 1))
        ta, _ = fmt_coord(rng, a, "plain" if rng.random() < 0.5 else "comma")
        tb, _ = fmt_coord(rng, b, "plain" if rng.random() < 0.5 else "comma")
        use_table = True
        if cls == "empty-name":
            s = [f":{ta}-{tb}", f" :{ta}-{tb}", ""][int(rng.integers(3))]
        elif cls == "missing-hyphen":
            s = [f"{name}:{ta}", f"{name}:{ta} {tb}", f"{name}:"][int(rng.integers(3))]
        elif cls == "negative":
            s = [f"{name}:-{ta}-{tb}", f"{name}:{ta}--{tb}", f"{name}:-{a + 1}-"][int(rng.integers(3))]
        elif cls == "non-numeric":
            s = [f"{name}:abc-{tb}", f"{name}:{ta}-xyz", f"{name}:start-end", f"{name}:{ta}-1.5",
                 f"{name}:#-{tb}"][int(rng.integers(5))]
        elif cls == "reversed":
            if a == b:
                b = a + 1
            s = f"{name}:{b}-{a}"
        elif cls == "unknown-unit":
            u = ["x", "kk", "bp", "T", "kbp", "mbb", "q"][int(rng.integers(7))]
            s = [f"{name}:{a}{u}-{b + 10**6}", f"{name}:{a}-{b}{u}"][int(rng.integers(2))]
        elif cls == "beyond-chromosome":
            s = [f"{name}:{a}-{L + 1 + int(rng.integers(0, 1000))}", f"{name}:{L + 1}-{L + 5}",
                 f"{name}:{L + 1}-"][int(rng.integers(3))]
        elif cls == "unknown-chromosome":
            s = [f"chrZ:{ta}-{tb}", "chrZ", f"{name}x", f"{name.upper()}Q:{ta}-{tb}"][int(rng.integers(4))]
        elif cls == "tuple-reversed":
            s = (name, b + 1, a)
        elif cls == "tuple-beyond":
            s = (name, a, L + 1)
        elif cls == "tuple-negative":
            s = (name, -1 - a, b)
        cid = f"mal:{k}"
        if not ctx.want(cid):
            continue
        with ctx.case(cid, {"class": cls, "input": s}) as c:
            c.feature(f"malformed:{cls}")
            accepted = None
            try:
                accepted = util.parse_region(s, chromsizes)
            except ValueError:
                pass
            except Exception as e:  # noqa
                c.fail(f"malformed-wrong-exception:{cls}:{type(e).__name__}",
                       f"parse_region({s!r}) raised {type(e).__name__} instead of ValueError")
                continue
            c.check(accepted is None, f"malformed-accepted:{cls}",
                    f"malformed region {s!r} accepted as {accepted}", {"input": s})
            # classes that do not need the table must also be refused by the string parser
            if isinstance(s, str) and cls in ("empty-name", "missing-hyphen", "negative", "non-numeric",
                                              "reversed", "unknown-unit"):
                acc2 = None
                try:
                    acc2 = util.parse_region_string(s)
                except ValueError:
                    pass
                except Exception as e:  # noqa
                    c.fail(f"malformed-wrong-exception:{cls}:{type(e).__name__}",
                           f"parse_region_string({s!r}) raised {type(e).__name__} instead of ValueError")
                    continue
                c.check(acc2 is None, f"malformed-accepted-by-string-parser:{cls}",
                        f"malformed region {s!r} accepted as {acc2}", {"input": s})
            c.nontrivial("mal", repr(s))
            if k < len(MALFORMED_CLASSES):
                ctx.sample({"class": cls, "input": s, "outcome": "ValueError"})


def run_uri(ctx, util):
    files = ["f.cool", "/a/b/f.mcool", "rel/dir/x.cool", "with space.cool", "a:b.cool", "./f"]
    groups = ["", "g", "a/b", "resolutions/1000", "cells/c 1", "x.y-z"]
    for fi, fpath in enumerate(files):
        for gi, g in enumerate(groups):
            cid = f"uri:{fi}:{gi}"
            if not ctx.want(cid):
                continue
            with ctx.case(cid, {"file": fpath, "group": g}) as c:
                want = (fpath, "/" + g)
                spellings = [f"{fpath}::{g}", f"{fpath}::/{g}"]
                if g == "":
                    spellings.append(fpath)
                for s in spellings:
                    try:
                        got = util.parse_cooler_uri(s)
                    except Exception as e:  # noqa
                        got = (type(e).__name__, str(e))
                    c.check(tuple(got) == want, "uri-split-differs",
                            f"parse_cooler_uri({s!r}) = {got}, expected {want}", {"uri": s})
                bad = f"{fpath}::{g}::x"
                ok = False
                try:
                    util.parse_cooler_uri(bad)
                except ValueError:
                    ok = True
                c.check(ok, "uri-two-separators-accepted", f"{bad!r} accepted")
                c.nontrivial("uri", fpath, g)
    ctx.sample({"uri": "f.cool::a/b", "denotes": ["f.cool", "/a/b"]})


def run_e2e(ctx, shard):
    """fetch('chr:1.5k-2.01k') == fetch(('chr',1500,2010)) on real coolers."""
    import cooler

    rng = ctx.rng("e2e")
    for k in range(shard["n"]):
        cid = f"e2e:{k}"
        if not ctx.want(cid):
            continue
        b = [10, 30, 70, 100][k % 4]
        L1, L2 = int(rng.integers(2500, 4000)), int(rng.integers(1000, 2000))
        bt = [["chr1", gen.fixed_edges(L1, b)], ["HLA-DRB1.1", gen.fixed_edges(L2, b)]]
        n = gen.bt_nbins(bt)
        P = gen.gen_pixels(rng, n, True, "sparse05")
        path = ctx.path()
        make_cooler(path, bt, P)
        clr = cooler.Cooler(path)
        with ctx.case(cid, {"binsize": b, "lengths": [L1, L2]}) as c:
            for name, L in (("chr1", L1), ("HLA-DRB1.1", L2)):
                for _ in range(40):
                    v1 = int(rng.integers(0, L // 10)) * 10
                    v2 = int(rng.integers(v1 // 10, L // 10 + 1)) * 10
                    t1, _ = fmt_coord(rng, v1, "unit")
                    t2, _ = fmt_coord(rng, v2, "unit")
                    s = f"{name}:{t1}-{t2}"
                    tup = (name, v1, v2)
                    try:
                        e_s = clr.extent(s)
                    except ValueError as e:
                        e_s = ("ValueError", str(e))
                    e_t = clr.extent(tup)
                    c.check(tuple(e_s) == tuple(e_t), "fetch-string-vs-tuple-extent",
                            f"extent({s!r}) = {e_s} but extent({tup}) = {e_t}", {"string": s})
                    if tuple(e_s) == tuple(e_t):
                        m1 = clr.matrix(balance=False).fetch(s)
                        m2 = clr.matrix(balance=False).fetch(tup)
                        c.check(np.array_equal(m1, m2), "fetch-string-vs-tuple-matrix",
                                f"matrix.fetch({s!r}) != matrix.fetch({tup})")
                        b1 = clr.bins().fetch(s)
                        b2 = clr.bins().fetch(tup)
                        c.check(b1.equals(b2), "fetch-string-vs-tuple-bins",
                                f"bins.fetch({s!r}) != bins.fetch({tup})")
                    c.nontrivial("e2e", s, b)
            ctx.sample({"e2e_string": s, "tuple": list(tup)})
        os.remove(path)


def run_corners(ctx, util):
    """Deterministic corner denotations: zero coordinates, empty ranges, ends at the chromosome length,
    every spelling of 0 and of the length, tuples with None."""
    L = 1000
    cs = {n: L for n in NAMES}
    k = 0
    for name in NAMES:
        cases = []
        for a, b in [(0, 0), (0, 1), (0, L), (L, L), (L - 1, L), (5, 5), (0, None), (L, None), (999, None)]:
            for sa in ([str(a), f"{a:,}"] + (["0k", "0.0k", "0M"] if a == 0 else []) + (["1k", "1.0k", "0.001M"] if a == L else [])):
                if b is None:
                    cases.append((f"{name}:{sa}-", (name, a, None), (name, a, L)))
                else:
                    for sb in ([str(b), f"{b:,}"] + (["0k", "0kb"] if b == 0 else []) + (["1k", "1,000", "1kb"] if b == L else [])):
                        cases.append((f"{name}:{sa}-{sb}", (name, a, b), (name, a, b)))
            cases.append(((name, a, b), None, (name, a, L if b is None else b)))
        cases.append(((name, None, None), None, (name, 0, L)))
        cases.append(((name, None, 0), None, (name, 0, 0)))
        cases.append(((name, None, 7), None, (name, 0, 7)))
        cases.append((name, (name, None, None), (name, 0, L)))
        for inp, den_str, den_reg in cases:
            k += 1
            cid = f"corner:{k}"
            if not ctx.want(cid):
                continue
            with ctx.case(cid, {"input": inp, "denotes": list(den_reg)}) as c:
                if isinstance(inp, str) and den_str is not None:
                    try:
                        got = util.parse_region_string(inp)
                    except ValueError as e:
                        got = ("ValueError", str(e))
                    c.check(tuple(got) == den_str, "region-string-wrong-denotation:corner",
                            f"parse_region_string({inp!r}) = {got}, denotes {den_str}")
                try:
                    got2 = util.parse_region(inp, cs)
                except ValueError as e:
                    got2 = ("ValueError", str(e))
                c.check(tuple(got2) == den_reg, "region-wrong-denotation:corner:" + ("zero-end" if den_reg[2] == 0 else
                        "empty-range" if den_reg[1] == den_reg[2] else "other"),
                        f"parse_region({inp!r}) = {got2}, denotes {den_reg}")
                c.nontrivial("corner", repr(inp))
    ctx.sample({"corner": "chr1:0-0", "denotes": ["chr1", 0, 0]})
