"""C16 Text export agrees with the API; re-importing it reproduces the cooler."""
from __future__ import annotations

import os

import numpy as np

from .. import gen, h5state, model, probes
from ..build import make_cooler, read_pixels_raw
from .c05 import ref_binning, write_lines

RULE = ("(1) `cooler dump` on generated coolers x option combinations {-r, -r2, --fill-lower, --join, --balanced, "
        "--annotate, --one-based-ids, --one-based-starts, --header, -k 1/3/1e6, -t chroms|bins -c} parsed and compared "
        "with rows derived from the generated pixels / Dense reference; each flag is also toggled against its neighbour "
        "case; (2) round trips dump -> load -f coo (zero/one-based), dump --join -> load -f bg2 (zero/one-based starts), "
        "symmetric and -N, loader chunk sizes from 1, result digest == source; (3) column layouts: the same records "
        "written with positional and value fields at arbitrary non-monotone column numbers with nuisance columns, loaded "
        "with matching --field / -c1 -p1 -c2 -p2 options, must equal the reference binning. In-process CliRunner plus a "
        "sample through a real `python -m cooler` subprocess. Non-trivial: >=1 pixel in the selection; distinct = "
        "(cooler, option vector)")
ASSUMPTIONS = ["zoomify resolution-spec spellings are decided in C09's check (shared mechanism)"]
MIN_NONTRIVIAL = {"quick": 250, "thorough": 2500}
REQUIRED_FEATURES = ["file:legacy-without-storage-mode-attribute", "dump:region", "dump:region2", "dump:fill-lower", "dump:join", "dump:balanced", "dump:annotate",
                     "dump:one-based-ids", "dump:one-based-ids-alone", "dump:one-based-starts", "dump:header",
                     "dump:table-bins", "dump:table-chroms", "roundtrip:coo", "roundtrip:bg2", "roundtrip:one-based",
                     "roundtrip:square", "layout:load-nonmonotone", "layout:cload-pairs-nonmonotone", "via:subprocess",
                     "bins-arg:chromsizes:binsize", "dump:fill-lower-straddling", "roundtrip:duplex",
                     "layout:load-square-unsorted-records", "layout:load-count-as-float+explicit-count-field",
                     "history:default-layout-after-explicit-field-numbers"]


def plan(tier, seed):
    n = 16 if tier == "quick" else 48
    return [{"kind": "dump", "sub": i, "cases": 5 if tier == "quick" else 40} for i in range(n)] + \
           [{"kind": "rt", "sub": i, "cases": 4 if tier == "quick" else 36} for i in range(n)] + \
           [{"kind": "layout", "sub": i, "cases": 4 if tier == "quick" else 36} for i in range(n)]


def run(ctx, shard):
    probes.activate(ctx)
    probes.probe_create_exit()
    rng0 = ctx.rng("plan", shard["kind"], shard["sub"])
    for i in range(shard["cases"]):
        seedk = int(rng0.integers(2**31))
        rng = ctx.rng("case", shard["kind"], shard["sub"], i, seedk)
        cid = f"{shard['kind']}:{shard['sub']}:{i}"
        if not ctx.want(cid):
            continue
        {"dump": dump_case, "rt": roundtrip_case, "layout": layout_case}[shard["kind"]](ctx, cid, rng, shard["sub"] * 100 + i)


def mk(ctx, rng, idx, need_weight=True):
    fams = ["fixed_exact", "fixed_short", "variable", "mixed", "fixed_onebin"]
    bt = gen.gen_bt(rng, fams[idx % len(fams)], max_chroms=3, max_bins=14, widths=(2, 5, 10, 1000))
    bt = [[c_.replace(" ", "_"), e] for c_, e in bt]
    n = gen.bt_nbins(bt)
    symm = bool(rng.random() < 0.65)
    P = gen.gen_pixels(rng, n, symm, ["sparse30", "dense", "sparse70", "emptyrows", "nodiag"][int(rng.integers(5))])
    w = rng.uniform(0.5, 2.0, size=n)
    w[rng.random(n) < 0.2] = np.nan
    gc = np.round(rng.random(n), 3)
    path = ctx.path()
    make_cooler(path, bt, P, symm=symm, bins_extra={"weight": w, "gc": gc} if need_weight else {"gc": gc})
    return path, bt, n, symm, P, w, gc


def invoke(args, sub=False):
    if sub:
        import subprocess
        from ..core import PY, REPO
        env = dict(os.environ)
        env["PYTHONPATH"] = os.path.join(REPO, "src")
        p = subprocess.run([PY, "-m", "cooler"] + args, env=env, stdout=subprocess.PIPE, stderr=subprocess.PIPE, timeout=300)
        return p.returncode, p.stdout.decode(), None
    from click.testing import CliRunner
    from cooler.cli import cli
    r = CliRunner().invoke(cli, args)
    return r.exit_code, r.output, r.exception


def fnum(x):
    if x in ("", "nan", "NaN"):
        return float("nan")
    return float(x)


def expected_rows(bt, n, symm, P, w, gc, opts, bbox):
    """Rows (tuples of python values) the dump should contain, as a multiset-comparable list."""
    i0, i1, j0, j1 = bbox
    bl = gen.bt_bins_list(bt)
    if opts.get("fill") and symm:
        D = model.dense(P, n, True)
        recs = [(i, j, D[i, j]) for i in range(i0, i1) for j in range(j0, j1) if D[i, j] != 0]
        ordered = False
    else:
        recs = [(i, j, P[(i, j)]) for (i, j) in sorted(P) if i0 <= i < i1 and j0 <= j < j1]
        ordered = True
    rows = []
    sid = 1 if opts.get("obi") else 0
    sst = 1 if opts.get("obs") else 0
    for i, j, v in recs:
        if opts.get("join"):
            r = [bl[i][0], bl[i][1] + sst, bl[i][2], bl[j][0], bl[j][1] + sst, bl[j][2], int(v)]
        else:
            r = [i + sid, j + sid, int(v)]
        if opts.get("bal"):
            r.append(v * w[i] * w[j])
        if opts.get("ann"):
            r += [gc[i], gc[j]]
        rows.append(tuple(r))
    return rows, ordered


def header_for(opts):
    h = (["chrom1", "start1", "end1", "chrom2", "start2", "end2"] if opts.get("join") else ["bin1_id", "bin2_id"]) + ["count"]
    if opts.get("bal"):
        h.append("balanced")
    if opts.get("ann"):
        h += ["gc1", "gc2"]
    return h


def parse_rows(text, opts):
    lines = [ln for ln in text.split("\n") if ln != ""]
    hdr = None
    if opts.get("hdr") and lines:
        hdr = lines[0].split("\t")
        lines = lines[1:]
    out = []
    for ln in lines:
        f = ln.split("\t")
        if opts.get("join"):
            r = [f[0], int(f[1]), int(f[2]), f[3], int(f[4]), int(f[5]), int(f[6])]
            rest = f[7:]
        else:
            r = [int(f[0]), int(f[1]), int(f[2])]
            rest = f[3:]
        r += [fnum(x) for x in rest]
        out.append(tuple(r))
    return hdr, out


def rows_equal(a, b):
    if len(a) != len(b):
        return False
    for x, y in zip(a, b):
        if len(x) != len(y):
            return False
        for u, v in zip(x, y):
            if isinstance(u, float) or isinstance(v, float):
                if not ((np.isnan(u) and np.isnan(v)) or np.isclose(u, v, rtol=1e-12, atol=0)):
                    return False
            elif u != v:
                return False
    return True


def dump_case(ctx, cid, rng, idx):
    import cooler

    path, bt, n, symm, P, w, gc = mk(ctx, rng, idx)
    legacy = bool(symm and rng.random() < 0.25)
    if legacy:
        # a file written by an early version: symmetric-upper without the (optional) storage-mode attribute
        import h5py
        with h5py.File(path, "r+") as f_:
            del f_.attrs["storage-mode"]
    clr = cooler.Cooler(path)
    chroms = [(c_, e[-1]) for c_, e in bt]
    with ctx.case(cid, {"bt": bt, "symm": symm, "nnz": len(P), "legacy": legacy}) as c:
        if legacy:
            c.feature("file:legacy-without-storage-mode-attribute")
        for rep in range(14):
            opts = {"fill": bool(rng.random() < 0.35), "join": bool(rng.random() < 0.4), "bal": bool(rng.random() < 0.3),
                    "ann": bool(rng.random() < 0.25), "obi": bool(rng.random() < 0.35), "obs": bool(rng.random() < 0.3),
                    "hdr": bool(rng.random() < 0.3), "k": int([1, 3, 10**6][int(rng.integers(3))])}
            if rep == 0:
                opts.update(join=False, bal=False, ann=False, obi=True)     # one-based ids alone
            region = region2 = None
            bbox = (0, n, 0, n)
            if rng.random() < 0.6:
                ca, La = chroms[int(rng.integers(len(chroms)))]
                s1 = int(rng.integers(0, La)); e1 = int(rng.integers(s1 + 1, La + 1))
                region = f"{ca}:{s1}-{e1}"
                i0, i1 = (int(x) for x in clr.extent((ca, s1, e1)))
                bbox = (i0, i1, i0, i1)
                if rng.random() < 0.5:
                    cb, Lb = chroms[int(rng.integers(len(chroms)))]
                    if rng.random() < 0.5:
                        cb, Lb = ca, La
                    s2 = int(rng.integers(0, Lb)); e2 = int(rng.integers(s2 + 1, Lb + 1))
                    if cb == ca and rng.random() < 0.6 and e1 - s1 >= 2:
                        # overlapping / nested ranges around the diagonal, in both orders
                        s2 = int(rng.integers(s1, e1)); e2 = int(rng.integers(s2 + 1, La + 1))
                        if rng.random() < 0.5:
                            s1, e1, s2, e2 = s2, e2, s1, e1
                            region = f"{ca}:{s1}-{e1}"
                            i0, i1 = (int(x) for x in clr.extent((ca, s1, e1)))
                        if symm:
                            opts["fill"] = bool(rng.random() < 0.7)
                    region2 = f"{cb}:{s2}-{e2}"
                    j0, j1 = (int(x) for x in clr.extent((cb, s2, e2)))
                    bbox = (i0, i1, j0, j1)
            args = ["dump", "--float-format", ".17g", "--na-rep", "nan", "-k", str(opts["k"])]
            for flag, key in (("--fill-lower", "fill"), ("--join", "join"), ("--balanced", "bal"), ("--one-based-ids", "obi"),
                              ("--one-based-starts", "obs"), ("--header", "hdr")):
                if opts[key]:
                    args.append(flag)
            if opts["ann"]:
                args += ["--annotate", "gc"]
            if region:
                args += ["-r", region]
            if region2:
                args += ["-r2", region2]
            sub = rep == 13 and idx % 4 == 0
            rc, out, exc = invoke(args + [path], sub=sub)
            desc = " ".join(a for a in args)
            for key, name in (("fill", "fill-lower"), ("join", "join"), ("bal", "balanced"), ("ann", "annotate"),
                              ("obi", "one-based-ids"), ("obs", "one-based-starts"), ("hdr", "header")):
                if opts[key]:
                    c.feature(f"dump:{name}")
            if opts["obi"] and not (opts["join"] or opts["bal"] or opts["ann"]):
                c.feature("dump:one-based-ids-alone")
            if region:
                c.feature("dump:region")
            if region2:
                c.feature("dump:region2")
            if sub:
                c.feature("via:subprocess")
            c.ctx.oracle_evals += 1
            if rc != 0:
                c.fail("dump-failed", f"`cooler {desc}` exit {rc}: {type(exc).__name__}: {exc}")
                continue
            want, ordered = expected_rows(bt, n, symm, P, w, gc, opts, bbox)
            hdr, got = parse_rows(out, opts)
            if opts["hdr"] and (got or want):
                c.check(hdr == header_for(opts), "dump-header-wrong", f"`cooler {desc}` header {hdr} != {header_for(opts)}")
            if not ordered:
                got, want = sorted(got, key=repr), sorted(want, key=repr)
            if not rows_equal(got, want):
                flags = [k for k in ("fill", "join", "bal", "ann", "obi", "obs") if opts[k]]
                # which single option explains the difference: compare with that option toggled off
                culprit = "rows"
                for k in flags:
                    o2 = dict(opts)
                    o2[k] = False
                    w2, _ = expected_rows(bt, n, symm, P, w, gc, o2, bbox)
                    g2 = got
                    if not ordered:
                        w2 = sorted(w2, key=repr)
                    if rows_equal(g2, w2):
                        culprit = {"fill": "fill-lower", "join": "join", "bal": "balanced", "ann": "annotate",
                                   "obi": "one-based-ids", "obs": "one-based-starts"}[k] + "-has-no-effect"
                        if k == "obi" and not (opts["join"] or opts["bal"] or opts["ann"]):
                            culprit += ":alone"
                c.fail(f"dump-differs:{culprit}{':region2' if region2 else ''}",
                       f"`cooler {desc}` rows differ from the library result on the same selection",
                       {"got": got[:8], "want": want[:8], "n_got": len(got), "n_want": len(want)})
            if want:
                c.nontrivial(cid, desc)
            if rep < 2:
                ctx.sample({"cmd": "cooler " + desc, "rows": len(want)}, limit=6)
        # --fill-lower on windows straddling the diagonal: row and column ranges of one chromosome that
        # overlap, in both orders (bin-aligned so that the overlap is never empty)
        big = max(bt, key=lambda ce: len(ce[1]))
        if symm and len(big[1]) >= 4:
            cname, edges = big
            nb = len(edges) - 1
            for rep in range(6):
                a = int(rng.integers(0, nb - 1)); b = int(rng.integers(a + 2, nb + 1)) if a + 2 <= nb else nb
                c0 = int(rng.integers(a, b)); d0 = int(rng.integers(c0 + 1, nb + 1))
                r1, r2 = (a, b), (c0, d0)
                if rep % 2:
                    r1, r2 = r2, r1
                reg1 = f"{cname}:{edges[r1[0]]}-{edges[r1[1]]}"
                reg2 = f"{cname}:{edges[r2[0]]}-{edges[r2[1]]}"
                i0, i1 = (int(x) for x in clr.extent(reg1)); j0, j1 = (int(x) for x in clr.extent(reg2))
                opts = {"fill": True, "join": bool(rep % 3 == 0), "bal": False, "ann": False, "obi": False, "obs": False,
                        "hdr": False, "k": int([1, 3, 10**6][rep % 3])}
                args = ["dump", "--fill-lower", "-k", str(opts["k"]), "-r", reg1, "-r2", reg2] + (["--join"] if opts["join"] else [])
                rc, out, exc = invoke(args + [path])
                c.feature("dump:fill-lower-straddling")
                c.ctx.oracle_evals += 1
                if rc != 0:
                    c.fail("dump-failed", f"`cooler {' '.join(args)}` exit {rc}: {exc}")
                    continue
                want, _ = expected_rows(bt, n, symm, P, w, gc, opts, (i0, i1, j0, j1))
                _, got = parse_rows(out, opts)
                if not rows_equal(sorted(got, key=repr), sorted(want, key=repr)):
                    order = "rows-start-before-columns" if i0 < j0 else "rows-start-at-or-after-columns"
                    c.fail(f"dump-fill-lower-differs:straddling:{order}",
                           f"`cooler {' '.join(args)}` does not list the symmetric completion of the window "
                           f"rows [{i0},{i1}) x cols [{j0},{j1})", {"got": sorted(got, key=repr)[:8], "want": sorted(want, key=repr)[:8]})
                if want:
                    c.nontrivial(cid, "straddle", rep, reg1, reg2)
        # table dumps
        for table, cols, want_cols in (("chroms", None, ["name", "length"]), ("bins", None, ["chrom", "start", "end", "gc", "weight"]),
                                       ("bins", "start,gc", ["start", "gc"]), ("bins", "chrom", ["chrom"])):
            args = ["dump", "-t", table, "--float-format", ".17g", "--na-rep", "nan", "-H"] + (["-c", cols] if cols else [])
            rc, out, exc = invoke(args + [path])
            c.feature(f"dump:table-{table}")
            if not c.check(rc == 0, f"dump-table-failed:{table}", f"cooler {' '.join(args)} exit {rc}: {exc}"):
                continue
            lines = [ln.split("\t") for ln in out.split("\n") if ln]
            tab = {"chroms": {"name": [c_ for c_, _ in bt], "length": [e[-1] for _, e in bt]},
                   "bins": {"chrom": [b[0] for b in gen.bt_bins_list(bt)], "start": [b[1] for b in gen.bt_bins_list(bt)],
                            "end": [b[2] for b in gen.bt_bins_list(bt)], "weight": w.tolist(), "gc": gc.tolist()}}[table]
            ok = lines[0] == want_cols and len(lines) - 1 == len(next(iter(tab.values())))
            if ok:
                for r, ln in enumerate(lines[1:]):
                    for col, val in zip(want_cols, ln):
                        ref = tab[col][r]
                        if isinstance(ref, float):
                            ok = ok and ((np.isnan(ref) and np.isnan(fnum(val))) or np.isclose(fnum(val), ref, rtol=1e-12))
                        else:
                            ok = ok and str(ref) == val
            c.check(ok, f"dump-table-differs:{table}", f"`cooler {' '.join(args)}` differs from the stored table",
                    {"head": lines[:4]})
    os.remove(path)


def roundtrip_case(ctx, cid, rng, idx):
    path, bt, n, symm, P, w, gc = mk(ctx, rng, idx, need_weight=False)
    d = ctx.newdir()
    bed = os.path.join(d, "bins.bed")
    gen.bt_frame(bt).to_csv(bed, sep="\t", header=False, index=False)
    fw = gen.bt_fixed_width(bt)
    sizes = os.path.join(d, "x.chrom.sizes")
    with open(sizes, "w") as fh:
        for c_, e in bt:
            fh.write(f"{c_}\t{e[-1]}\n")
    with ctx.case(cid, {"bt": bt, "symm": symm, "nnz": len(P)}) as c:
        for fmt in ("coo", "bg2"):
            bins_arg = bed
            if fw is not None and rng.random() < 0.5:
                bins_arg = f"{sizes}:{fw}"          # the other documented spelling of BINS
                c.feature("bins-arg:chromsizes:binsize")
            one = bool(rng.random() < 0.5)
            csz = int([1, 3, 10**6][int(rng.integers(3))])
            txt = os.path.join(d, f"dump.{fmt}")
            dargs = ["dump", "-o", txt, "-k", str(int([1, 5, 10**6][int(rng.integers(3))]))]
            if fmt == "coo":
                if one:
                    dargs.append("--one-based-ids")
            else:
                dargs.append("--join")
                if one:
                    dargs.append("--one-based-starts")
            duplex = bool(fmt == "bg2" and symm and rng.random() < 0.4)
            if duplex:
                dargs.append("--fill-lower")       # both triangles in the text: the loader must drop one copy
                c.feature("roundtrip:duplex")
            rc, out, exc = invoke(dargs + [path])
            if not c.check(rc == 0, "dump-failed", f"cooler {' '.join(dargs)} exit {rc}: {exc}"):
                continue
            out_uri = os.path.join(d, f"rt_{fmt}.cool")
            largs = ["load", "-f", fmt, "--chunksize", str(csz)] + (["--one-based"] if one else []) + \
                    (["--input-copy-status", "duplex"] if duplex else []) + \
                    ([] if symm else ["--no-symmetric-upper"]) + [bins_arg, txt, out_uri]
            if not P:
                continue       # an empty text file is not a loadable table
            rc, out, exc = invoke(largs)
            c.feature(f"roundtrip:{fmt}")
            if one:
                c.feature("roundtrip:one-based")
            if not symm:
                c.feature("roundtrip:square")
            c.ctx.oracle_evals += 1
            if not c.check(rc == 0, f"load-failed:{fmt}", f"cooler {' '.join(a if not a.startswith(d) else os.path.basename(a) for a in largs)} "
                                                         f"exit {rc}: {type(exc).__name__}: {exc}"):
                continue
            keys, cols = read_pixels_raw(out_uri, "/", ("count",))
            got = dict(zip(keys, cols["count"].tolist()))
            c.check(got == P and list(keys) == sorted(P), f"roundtrip-differs:{fmt}:{'one-based' if one else 'zero-based'}",
                    f"dump ({'one' if one else 'zero'}-based) -> load -f {fmt} does not reproduce the pixel table",
                    lambda: {"got": sorted(got.items())[:10], "want": sorted(P.items())[:10]})
            tabs = ("chroms", "bins")
            c.check(h5state.digest_uri(out_uri, tables=tabs, attrs=False, skip_cols=(("bins", "gc"),))
                    == h5state.digest_uri(path, tables=tabs, attrs=False, skip_cols=(("bins", "gc"),)),
                    f"roundtrip-bins-differ:{fmt}", "re-imported cooler has a different chromosome/bin table")
            if P:
                c.nontrivial(cid, fmt, one, csz)
            ctx.sample({"roundtrip": fmt, "one_based": one, "symm": symm, "load_chunksize": csz, "nnz": len(P)}, limit=4)
    os.remove(path)


def layout_case(ctx, cid, rng, idx):
    """Same records, fields at arbitrary non-monotone column numbers with nuisance columns."""
    fams = ["fixed_exact", "fixed_short", "variable", "mixed"]
    bt = gen.gen_bt(rng, fams[idx % len(fams)], max_chroms=3, max_bins=12, widths=(2, 5, 10))
    bt = [[c_.replace(" ", "_"), e] for c_, e in bt]
    n = gen.bt_nbins(bt)
    d = ctx.newdir()
    bed = os.path.join(d, "bins.bed")
    gen.bt_frame(bt).to_csv(bed, sep="\t", header=False, index=False)
    bl = gen.bt_bins_list(bt)
    kind = ["coo", "bg2", "pairs"][idx % 3]
    ncols = int(rng.integers(8, 12))
    square = cfloat = False
    with ctx.case(cid, {"bt": bt, "kind": kind}) as c:
        if kind == "pairs":
            fields = ["chrom1", "pos1", "chrom2", "pos2", "score"]
            recs = []
            for _ in range(int(rng.integers(3, 40))):
                a, b = bl[int(rng.integers(len(bl)))], bl[int(rng.integers(len(bl)))]
                recs.append([a[0], int(rng.integers(a[1], a[2])), b[0], int(rng.integers(b[1], b[2])), "valid"])
            scores = [float(int(rng.integers(0, 80))) / 8 for _ in recs]
            want, _ = ref_binning(bt, recs, "reflect")
            # per-pixel score sums
            wsc = {}
            rank = {cc: ii for ii, (cc, _) in enumerate(bt)}
            for r, s in zip(recs, scores):
                c1, p1, c2, p2 = r[:4]
                if rank[c1] > rank[c2] or (c1 == c2 and p1 > p2):
                    c1, p1, c2, p2 = c2, p2, c1, p1
                key = (model.bin_of(bt, c1, p1), model.bin_of(bt, c2, p2))
                wsc[key] = wsc.get(key, 0.0) + s
            values = [[r[0], r[1] + 1, r[2], r[3] + 1, s] for r, s in zip(recs, scores)]
        else:
            fields = (["bin1_id", "bin2_id"] if kind == "coo" else ["chrom1", "start1", "end1", "chrom2", "start2", "end2"]) \
                + ["count", "score"]
            square = bool(rng.random() < 0.4)          # --no-symmetric-upper: both triangles are data, kept as given
            P = gen.gen_pixels(rng, n, not square, "sparse70") or {(0, 0): 3}
            cfloat = bool(rng.random() < 0.3)           # fractional counts, loaded with --count-as-float
            if cfloat:
                P = {k: v + float(int(rng.integers(1, 8))) / 8 for k, v in P.items()}
            E = {k: float(int(rng.integers(0, 80))) / 8 for k in P}
            want, wsc = P, E
            values = []
            for (i, j) in P:
                a, b = (i, j) if square or rng.random() < 0.5 else (j, i)     # orientation random: reflect restores it
                pos = [a, b] if kind == "coo" else [bl[a][0], bl[a][1], bl[a][2], bl[b][0], bl[b][1], bl[b][2]]
                values.append(pos + [P[(i, j)], E[(i, j)]])
        for rep in range(4):
            colnums = [int(x) for x in rng.permutation(ncols)[: len(fields)]]       # zero-based, any order
            monotone = colnums == sorted(colnums)
            if rep == 0:
                colnums = sorted(colnums)
                monotone = True
            rows = []
            for v in values:
                row = [f"junk{k}" for k in range(ncols)]
                for k, col in enumerate(colnums):
                    row[col] = v[k]
                rows.append(row)
            rows = [rows[int(x)] for x in rng.permutation(len(rows))]
            txt = os.path.join(d, f"layout{rep}.txt")
            write_lines(txt, rows)
            out_uri = os.path.join(d, f"layout{rep}.cool")
            fn = dict(zip(fields, [x + 1 for x in colnums]))
            if kind == "pairs":
                args = ["cload", "pairs", "-c1", str(fn["chrom1"]), "-p1", str(fn["pos1"]), "-c2", str(fn["chrom2"]),
                        "-p2", str(fn["pos2"]), "--field", f"score={fn['score']}:dtype=float", "--chunksize",
                        str(int([2, 10**6][int(rng.integers(2))])), bed, txt, out_uri]
                c.feature("layout:cload-pairs-nonmonotone" if not monotone else "layout:cload-pairs-monotone")
            else:
                args = ["load", "-f", kind, "--chunksize", str(int([2, 3, 5, 11, 10**6][int(rng.integers(5))]))]
                if square:
                    args.append("--no-symmetric-upper")
                    c.feature("layout:load-square-unsorted-records")
                if cfloat:
                    args.append("--count-as-float")
                    c.feature("layout:load-count-as-float+explicit-count-field")
                for f_ in fields:
                    spec = f"{f_}={fn[f_]}" + (":dtype=float" if f_ == "score" else "")
                    args += ["--field", spec]
                args += [bed, txt, out_uri]
                c.feature("layout:load-nonmonotone" if not monotone else "layout:load-monotone")
            rc, out, exc = invoke(args)
            shown = " ".join(a if not a.startswith(d) else os.path.basename(a) for a in args)
            c.ctx.oracle_evals += 1
            key_m = "monotone" if monotone else "non-monotone"
            if rc != 0:
                c.fail(f"layout-load-failed:{kind}:{key_m}", f"`cooler {shown}` exit {rc}: {type(exc).__name__}: {str(exc)[:200]}",
                       {"field_numbers": fn})
                continue
            keys, cols = read_pixels_raw(out_uri, "/", ("count", "score"))
            got = dict(zip(keys, cols["count"].tolist()))
            c.check(list(keys) == sorted(want), f"layout-pixel-table-not-the-sorted-record-set:{kind}",
                    f"`cooler {shown}`: stored pixel rows are not the sorted set of input pixels (the library's create/"
                    f"matrix queries rely on that order)", lambda: {"got_keys": list(keys)[:12], "want_keys": sorted(want)[:12]})
            if cfloat:
                c.check(cols["count"].dtype == np.float64, "count-as-float-ignored",
                        f"`cooler {shown}`: count stored as {cols['count'].dtype}")
            c.check(got == want, f"layout-counts-differ:{kind}:{key_m}",
                    f"`cooler {shown}` does not reproduce the library result (field numbers {fn})",
                    lambda: {"got": sorted(got.items())[:10], "want": sorted(want.items())[:10]})
            if "score" in cols:
                gs = dict(zip(keys, cols["score"].tolist()))
                c.check(set(gs) == set(wsc) and all(np.isclose(gs[k], wsc[k], rtol=1e-12) for k in wsc),
                        f"layout-value-column-differs:{kind}:{key_m}", f"`cooler {shown}`: value column 'score' differs")
            else:
                c.fail(f"layout-value-column-missing:{kind}", f"`cooler {shown}`: column 'score' was not stored")
            c.nontrivial(cid, rep, tuple(colnums))
            if rep == 1:
                ctx.sample({"cmd": "cooler " + shown, "field_numbers": fn}, limit=4)
        if kind in ("coo", "bg2") and not square:
            # history: the next command of this process relies on the format's DEFAULT column layout again
            txt = os.path.join(d, "default_layout.txt")
            write_lines(txt, [v[:-1] for v in values])             # positional fields + count, in the standard order
            out_uri = os.path.join(d, "default_layout.cool")
            args = ["load", "-f", kind] + (["--count-as-float"] if cfloat else []) + [bed, txt, out_uri]
            rc, out, exc = invoke(args)
            c.feature("history:default-layout-after-explicit-field-numbers")
            if c.check(rc == 0, f"layout-load-failed:{kind}:default-after-explicit",
                       f"`cooler load -f {kind}` with the default layout, run after loads with explicit field numbers in the same "
                       f"process: exit {rc}: {type(exc).__name__}: {str(exc)[:150]}"):
                keys, cols = read_pixels_raw(out_uri, "/", ("count",))
                c.check(dict(zip(keys, cols["count"].tolist())) == want and list(keys) == sorted(want),
                        f"layout-counts-differ:{kind}:default-after-explicit",
                        "a load with the default column layout gives other pixels after earlier loads of the same process "
                        "used explicit field numbers")
