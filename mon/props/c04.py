"""C04 Genomic ranges map to exactly the bins that cover them."""
from __future__ import annotations

import os

import numpy as np
import pandas as pd

from .. import gen, model, probes
from ..build import make_cooler

RULE = ("one cooler per generated bin table (all families incl. short/long last bin, one-bin chromosomes, "
        "variable width); for every chromosome of length <= bound ALL (start,end) with 0<=start<=end<=length "
        "are driven through extent/offset/bins.fetch/pixels.fetch/matrix.fetch (+ GenomeSegmentation.fetch, "
        "bedslice) and compared with a linear overlap scan; larger chromosomes are sampled on bin edges +-1. "
        "Non-trivial: start<end, or an empty range strictly inside a bin; distinct = (table, chrom, start, end)")
ASSUMPTIONS = ["overlap_bins / bin_of linear scans are the denotation of 'covering bins'",
               "an empty range may select the bin whose closed interval touches the position"]
EXHAUSTIVE = {"quick": "all (start,end) for every chromosome of length <= 24 in each generated table",
              "thorough": "all (start,end) for every chromosome of length <= 40 in each generated table"}
MIN_NONTRIVIAL = {"quick": 5000, "thorough": 50000}
REQUIRED_PROBES = ["region_to_extent"]
REQUIRED_FEATURES = ["binsize:fixed", "binsize:variable", "chrom:exhaustive", "chrom:sampled", "location:nested-group",
                     "cooler:derived+chromosome-end-near-2^31", "history:queried-after-rename_chroms", "fetch2:cross-chrom",
                     "chrom:>2^20-bins", "history:path-held-another-cooler-that-was-queried"]

FAMS = ["fixed_exact", "fixed_short", "fixed_onebin", "variable", "onebin_each", "trap", "mixed", "multi_width"]


def plan(tier, seed):
    if tier == "quick":
        return [{"kind": "exh", "fam": FAMS[i % len(FAMS)], "sub": i, "tables": 3, "maxlen": 24} for i in range(16)] + \
               [{"kind": "big", "sub": i, "tables": 3} for i in range(2)] + [{"kind": "megabins", "sub": 0}]
    return [{"kind": "exh", "fam": FAMS[i % len(FAMS)], "sub": i, "tables": 6, "maxlen": 40} for i in range(42)] + \
           [{"kind": "big", "sub": i, "tables": 6} for i in range(6)] + [{"kind": "megabins", "sub": i} for i in range(3)]


def small_bt(rng, fam, maxlen):
    k = int(rng.integers(1, 5))
    names = gen.gen_names(rng, k)
    b = int([1, 2, 3, 5, 7, 10][int(rng.integers(6))])
    bt = []
    for ci, name in enumerate(names):
        L = int(rng.integers(1, maxlen + 1))
        if fam == "fixed_exact":
            L = max(b, (L // b) * b)
            e = gen.fixed_edges(L, b)
        elif fam == "fixed_short":
            if b == 1:
                b = 3
            if L % b == 0:
                L = L + 1 if L < maxlen else L - 1
            L = max(1, L)
            e = gen.fixed_edges(L, b)
        elif fam == "fixed_onebin":
            if ci == 0:
                L = int(rng.integers(1, b + 1))
            e = gen.fixed_edges(L, b)
        elif fam == "onebin_each":
            e = [0, L]
        elif fam == "variable":
            cuts = sorted(set(rng.integers(1, max(2, L), size=int(rng.integers(0, 6))).tolist())) if L > 1 else []
            e = [0] + [x for x in cuts if 0 < x < L] + [L]
        elif fam == "trap":
            if ci == 0:
                bb = int(rng.integers(1, 6))
                kind = int(rng.integers(2))
            nb = int(rng.integers(2, 5)) if ci == 0 else int(rng.integers(1, 4))
            b = bb
            if kind == 0 or (kind == 1 and ci == 0):
                # (i) last bin longer than the others  /  first chromosome of kind (ii): plain fixed
                last = bb + int(rng.integers(1, bb + 2)) if kind == 0 else int(rng.integers(1, bb + 1))
                e = [i * bb for i in range(nb)] + [(nb - 1) * bb + last]
            elif ci == 1 or rng.random() < 0.4:
                e = [0, bb + int(rng.integers(1, 2 * bb + 2))]          # (ii) one-bin chromosome longer than bb
            else:
                e = gen.fixed_edges(int(rng.integers(1, nb * bb + 1)), bb)
        elif fam == "mixed":
            r = rng.random()
            e = [0, int(rng.integers(1, b + 1))] if r < 0.4 else gen.fixed_edges(L, b)
        elif fam == "multi_width":
            bw = int([2, 3, 5, 4, 7][(ci + b) % 5])       # each chromosome uniform at its own width
            nbk = int(rng.integers(2, max(3, maxlen // bw)))
            e = gen.fixed_edges(nbk * bw - int(rng.integers(0, bw)), bw)
            if len(e) < 3:
                e = [0, bw, 2 * bw]
        bt.append([name, [int(x) for x in e]])
    if fam == "variable" and gen.bt_fixed_width(bt) is not None:
        bt[0][1] = [0, 3, 4, 9]
    if fam == "trap" and not gen.bt_is_trap(bt):
        bt.append(["trapX", [0, 3 * b + 1]])
    if fam == "multi_width" and gen.bt_fixed_width(bt) is not None:
        w0 = bt[0][1][1]
        bt.append(["mwX", [0, w0 + 1, 2 * w0 + 2, 3 * w0 + 3]])
    return bt


def run(ctx, shard):
    probes.activate(ctx, owned={"region_to_extent"})
    probes.probe_region_to_extent()
    if shard["kind"] == "exh":
        run_exh(ctx, shard)
    elif shard["kind"] == "megabins":
        run_megabins(ctx, shard)
    else:
        run_big(ctx, shard)


def spellings(rng, chrom, s, e, L):
    out = [(chrom, s, e), f"{chrom}:{s}-{e}", f"{chrom}:{s:,}-{e:,}"]
    if e == L:
        out.append(f"{chrom}:{s}-")
        out.append((chrom, s, None))
        if s == 0:
            out.append(chrom)
            out.append((chrom, None, None))
    if s == 0:
        out.append((chrom, None, e))
    return out


def check_region(c, clr, gs, grouped, cs, bt, D, pix_rows, chrom, s, e, L, rng, heavy):
    """All clauses for one (chrom, s, e)."""
    c0, c1 = model.chrom_bin_range(bt, chrom)
    bl = gen.bt_bins_list(bt)
    if s < e:
        ids = model.overlap_bins(bt, chrom, s, e)
        want = (ids[0], ids[-1] + 1)
    else:
        want = None
    for spell in spellings(rng, chrom, s, e, L):
        lo, hi = clr.extent(spell)
        lo, hi = int(lo), int(hi)
        off = int(clr.offset(spell))
        c.ctx.oracle_evals += 2
        if want is not None:
            if (lo, hi) != want:
                kind = "spills-other-chromosome" if (lo < c0 or hi > c1) else "wrong-bins"
                c.fail(f"extent-{kind}", f"extent({spell!r}) = {(lo, hi)}, covering bins are {want}",
                       {"bt": bt, "region": spell})
                return False
            if off != want[0]:
                c.fail("offset-wrong", f"offset({spell!r}) = {off}, first covering bin is {want[0]}",
                       {"bt": bt, "region": spell})
                return False
        else:
            ok = (hi - lo) in (0, 1) and c0 <= lo <= hi <= c1
            if ok and hi - lo == 1:
                _, a, b = bl[lo]
                ok = a <= s <= b
            if not ok:
                c.fail("empty-range-selects-wrong-bins",
                       f"extent({spell!r}) = {(lo, hi)} for an empty range at {s} (chrom bins [{c0},{c1}))",
                       {"bt": bt, "region": spell})
                return False
        if not heavy:
            break
    lo, hi = int(clr.extent((chrom, s, e))[0]), int(clr.extent((chrom, s, e))[1])
    reg = (chrom, s, e)
    # bins fetch
    bf = clr.bins().fetch(reg)
    okb = (list(bf.index) == list(range(lo, hi))
           and list(zip(bf["chrom"].astype(str), bf["start"].tolist(), bf["end"].tolist())) == bl[lo:hi])
    c.check(okb, "bins-fetch-wrong-rows", f"bins().fetch({reg}) != bin rows [{lo},{hi})", {"bt": bt})
    if heavy:
        pf = clr.pixels().fetch(reg)
        wantp = [r for r in pix_rows if lo <= r[1] < hi]
        gotp = list(zip(pf.index.tolist(), pf["bin1_id"].tolist(), pf["bin2_id"].tolist(), pf["count"].tolist()))
        c.check(gotp == wantp, "pixels-fetch-wrong-rows", f"pixels().fetch({reg}) != stored pixels with bin1 in [{lo},{hi})",
                {"bt": bt, "got": gotp[:10], "want": wantp[:10]})
        m = clr.matrix(balance=False).fetch(reg)
        c.check(m.shape == (hi - lo, hi - lo) and np.array_equal(m, D[lo:hi, lo:hi]), "matrix-fetch-wrong-block",
                f"matrix().fetch({reg}) != full[{lo}:{hi},{lo}:{hi}]", {"bt": bt})
        # GenomeSegmentation.fetch / bedslice on the bin frame
        from cooler.util import bedslice
        for nm, g in (("genomesegmentation-fetch", gs.fetch(reg)), ("bedslice", bedslice(grouped, cs, reg))):
            rows = list(g.index)
            if s < e:
                okg = rows == list(range(lo, hi))
            else:  # empty range: at most the one bin touching the position, same chromosome
                okg = len(rows) <= 1 and all(c0 <= r < c1 and bl[r][1] <= s <= bl[r][2] for r in rows)
            c.check(okg, f"{nm}-differs", f"{nm}({reg}) selects rows {rows}; covering bins are [{lo},{hi})",
                    {"bt": bt})
    return True


def run_table(ctx, cid, bt, rng, maxlen, sample_big=False, derive_k=None):
    import cooler
    from cooler.util import GenomeSegmentation

    fine_bt = None
    if derive_k:
        # the queried cooler is produced by coarsening (as every zoom level is): its stored attributes have the
        # types the library itself derives, not the ones of a freshly binnified table
        fine_bt, bt = bt, model.ref_coarsen_bt(bt, derive_k)
    n = gen.bt_nbins(bt)
    P = gen.gen_pixels(rng, n, True, ["sparse30", "dense", "sparse70", "emptyrows"][int(rng.integers(4))])
    path = ctx.path()
    group = "/" if rng.random() < 0.6 else "/nested/grp"
    uri = path + ("::" + group if group != "/" else "")
    if group != "/" and rng.random() < 0.5:
        make_cooler(path, [["rootchrom", [0, 7, 14]]], {(0, 1): 9})   # another collection sits at the root
    reused = False
    if rng.random() < 0.35:
        # history: the same path (and group) held another cooler before - same chromosomes, other bin counts per
        # chromosome - and that one was range-queried in this process; nothing of it may survive in later answers
        pre_bt = [[nm, [0, e[-1]]] if len(e) > 2 or i_ % 2 else [nm, sorted({0, max(1, e[-1] // 2), e[-1]})]
                  for i_, (nm, e) in enumerate(bt)]
        make_cooler(uri, pre_bt, {(0, 0): 1}, mode="a")
        pre = cooler.Cooler(uri)
        for nm, e in pre_bt:
            pre.extent(nm); pre.bins().fetch(nm); pre.pixels().fetch(nm); pre.matrix(balance=False).fetch(nm)
        del pre
        reused = True
    if derive_k:
        fine = ctx.path()
        Pf = gen.gen_pixels(rng, gen.bt_nbins(fine_bt), True, ["sparse30", "dense"][int(rng.integers(2))])
        make_cooler(fine, fine_bt, Pf)
        cooler.coarsen_cooler(fine, uri, derive_k, chunksize=10**6, mode="a")
        os.remove(fine)
        P = model.ref_coarsen(fine_bt, Pf, derive_k)
    else:
        make_cooler(uri, bt, P, mode="a")
    clr = cooler.Cooler(uri)
    D = model.dense(P, n, True)
    pix_rows = [(k, i, j, P[(i, j)]) for k, (i, j) in enumerate(sorted(P))]
    bins = gen.bt_frame(bt, categorical=True)
    cs = gen.bt_chromsizes(bt)
    gs = GenomeSegmentation(cs, bins)
    grouped = bins.groupby("chrom", observed=True)
    with ctx.case(cid, {"bt": bt, "nnz": len(P)}) as c:
        c.feature("binsize:fixed" if clr.binsize is not None else "binsize:variable",
                  "location:root" if group == "/" else "location:nested-group")
        if reused:
            c.feature("history:path-held-another-cooler-that-was-queried")
        if gen.bt_fixed_width(bt) is None and clr.binsize is not None:
            c.feature("trap-table-reported-fixed")
        if derive_k:
            c.feature("cooler:derived-by-coarsen", f"binsize-attr-type:{type(clr.info.get('bin-size')).__name__}")
            if max(e[-1] for _, e in bt) > 2**31 - 3 * (gen.bt_fixed_width(bt) or 0):
                c.feature("cooler:derived+chromosome-end-near-2^31")
        nreg = 0
        for chrom, edges in bt:
            L = edges[-1]
            if not sample_big and L <= maxlen:
                regs = [(s, e) for s in range(L + 1) for e in range(s, L + 1)]
                exh = True
            else:
                pts = sorted(set([0, L, L - 1, 1] + [x + d for x in edges for d in (-1, 0, 1)]))
                pts = [p for p in pts if 0 <= p <= L]
                if len(pts) > 40:
                    pts = sorted(set(rng.choice(pts, 40, replace=False).tolist() + [0, L]))
                regs = [(s, e) for s in pts for e in pts if s <= e]
                exh = False
            for s, e in regs:
                heavy = (nreg % 3 == 0) or s == e or e == L or s == 0
                ok = check_region(c, clr, gs, grouped, cs, bt, D, pix_rows, chrom, s, e, L, rng, heavy)
                nreg += 1
                if s < e or any(a < s < b for a, b in zip(edges[:-1], edges[1:])):
                    c.nontrivial(repr(bt), chrom, s, e)
                if not ok or len(ctx.failures) > 30:
                    break
            c.feature("chrom:exhaustive" if exh else "chrom:sampled")
            if len(ctx.failures) > 30:
                break
        # two-region fetches (other chromosome too)
        chroms = [(cname, e[-1]) for cname, e in bt]
        for _ in range(25):
            (ca, La), (cb, Lb) = chroms[int(rng.integers(len(chroms)))], chroms[int(rng.integers(len(chroms)))]
            s1 = int(rng.integers(0, La + 1)); e1 = int(rng.integers(s1, La + 1))
            s2 = int(rng.integers(0, Lb + 1)); e2 = int(rng.integers(s2, Lb + 1))
            r1, r2 = (ca, s1, e1), (cb, s2, e2)
            i0, i1 = map(int, clr.extent(r1)); j0, j1 = map(int, clr.extent(r2))
            m = clr.matrix(balance=False).fetch(r1, r2)
            m2 = clr.matrix(balance=False)[i0:i1, j0:j1]
            c.check(m.shape == (i1 - i0, j1 - j0) and np.array_equal(m, D[i0:i1, j0:j1]) and np.array_equal(m, m2),
                    "matrix-fetch2-wrong-block", f"matrix().fetch({r1},{r2}) != full[{i0}:{i1},{j0}:{j1}]", {"bt": bt})
            sp = clr.matrix(balance=False, sparse=True).fetch(r1, r2)
            c.check(np.array_equal(sp.toarray(), D[i0:i1, j0:j1]), "matrix-fetch2-sparse-wrong-block",
                    f"sparse matrix().fetch({r1},{r2}) != full block", {"bt": bt})
            c.feature("fetch2:cross-chrom" if ca != cb else "fetch2:same-chrom")
        # history: chromosomes renamed (two names exchanged) on this live object, then queried by name again
        if len(bt) >= 2 and len(ctx.failures) == 0 and rng.random() < 0.5:
            a_, b_ = (int(x) for x in rng.permutation(len(bt))[:2])
            cooler.rename_chroms(clr, {bt[a_][0]: bt[b_][0], bt[b_][0]: bt[a_][0]})
            bt2 = [[nm, e] for nm, e in bt]
            bt2[a_][0], bt2[b_][0] = bt[b_][0], bt[a_][0]
            bins2 = gen.bt_frame(bt2, categorical=True)
            cs2 = gen.bt_chromsizes(bt2)
            gs2 = GenomeSegmentation(cs2, bins2)
            grouped2 = bins2.groupby("chrom", observed=True)
            c.feature("history:queried-after-rename_chroms")
            for chrom, edges in bt2:
                L = edges[-1]
                pts = sorted({0, L, int(rng.integers(0, L + 1)), int(rng.integers(0, L + 1)), edges[len(edges) // 2]})
                for s, e in [(s, e) for s in pts for e in pts if s <= e][:8]:
                    check_region(c, clr, gs2, grouped2, cs2, bt2, D, pix_rows, chrom, s, e, L, rng, True)
                    nreg += 1
        ctx.evaluations += nreg
        ctx.sample({"bin_table": bt, "regions_checked": nreg, "example": [bt[0][0], 0, bt[0][1][-1]]}, limit=4)
    os.remove(path)


def run_exh(ctx, shard):
    rng = ctx.rng("exh", shard["sub"])
    for t in range(shard["tables"]):
        bt = small_bt(rng, shard["fam"], shard["maxlen"])
        cid = f"exh:{shard['sub']}:{t}"
        r2 = ctx.rng("exh-case", shard["sub"], t)
        if ctx.want(cid):
            run_table(ctx, cid, bt, r2, shard["maxlen"])


def run_big(ctx, shard):
    rng = ctx.rng("big", shard["sub"])
    for t in range(shard["tables"]):
        fam = FAMS[t % len(FAMS)]
        bt = gen.gen_bt(rng, fam, max_chroms=4, max_bins=24, widths=(10, 1000, 4096, 100000))
        if (shard["sub"] + t) % 4 == 3:
            bt = gen.gen_giant_bt(rng)          # > 2**31 bp in total
        derive_k = None
        if (shard["sub"] + t) % 4 == 1:
            # fixed-width genomic-scale table, later coarsened: chromosome ends within a few bins of 2**31
            w = int([25_000_000, 50_000_000, 100_000_000][int(rng.integers(3))])
            derive_k = int([2, 2, 3][int(rng.integers(3))])
            L0 = int(rng.integers(2**31 - 2 * w, 2**31))
            bt = [["chrG", gen.fixed_edges(L0, w)], ["chr2", gen.fixed_edges(int(rng.integers(w, 8 * w)), w)]]
            if rng.random() < 0.5:
                bt.reverse()
        cid = f"big:{shard['sub']}:{t}"
        r2 = ctx.rng("big-case", shard["sub"], t)
        if ctx.want(cid):
            run_table(ctx, cid, bt, r2, 0, sample_big=True, derive_k=derive_k)


def run_megabins(ctx, shard):
    """Scale boundary: a variable-width chromosome (restriction-fragment resolution) with more than 2**20 bins.
    Covering bins are computed here with two binary searches on the generated edge array (the linear scan of the
    small tables is too slow at this size); extents and table fetches must agree with them."""
    import cooler
    import pandas as pd

    rng = ctx.rng("megabins", shard["sub"])
    cid = f"megabins:{shard['sub']}"
    if not ctx.want(cid):
        return
    nb = (1 << 20) + int(rng.integers(2000, 9000))
    widths = rng.integers(1, 400, size=nb)
    edges = np.concatenate([[0], np.cumsum(widths)]).astype(np.int64)
    small = np.array([0, 700, 1500, 1501], dtype=np.int64)
    order = ["frag", "tiny"] if shard["sub"] % 2 == 0 else ["tiny", "frag"]
    tabs = {"frag": edges, "tiny": small}
    bins = pd.concat([pd.DataFrame({"chrom": nm, "start": tabs[nm][:-1], "end": tabs[nm][1:]}) for nm in order], ignore_index=True)
    offs = {order[0]: 0, order[1]: len(tabs[order[0]]) - 1}
    ntot = len(bins)
    ii = np.sort(rng.integers(0, ntot - 3, size=200))
    pix = pd.DataFrame({"bin1_id": ii, "bin2_id": ii + rng.integers(0, 3, size=200), "count": 1}).drop_duplicates(["bin1_id", "bin2_id"])
    path = ctx.path()
    with ctx.case(cid, {"bins_of_frag": nb, "order": order}) as c:
        cooler.create_cooler(path, bins, pix)
        clr = cooler.Cooler(path)
        c.feature("binsize:variable", "chrom:>2^20-bins")
        L = int(edges[-1])
        blk = int(edges[1 << 20])
        pts = sorted({0, 1, L, L - 1, blk, blk - 1, blk + 1, int(edges[(1 << 20) - 1]), int(edges[(1 << 19)]), int(edges[5]),
                      int(edges[nb - 2])} | {int(x) for x in rng.integers(0, L, size=6)})
        regs = [(s_, e_) for s_ in pts for e_ in pts if s_ < e_]
        nreg = 0
        for s_, e_ in regs:
            lo = int(np.searchsorted(edges[1:], s_, side="right"))
            hi = int(np.searchsorted(edges[:-1], e_, side="left"))
            want = (offs["frag"] + lo, offs["frag"] + hi)
            for spelled in (("frag", s_, e_), f"frag:{s_}-{e_}"):
                got = tuple(int(x) for x in clr.extent(spelled))
                nreg += 1
                if got != want:
                    c.fail("extent-wrong-bins:>2^20-bins", f"extent({spelled!r}) = {got}, covering bins are {want}")
                    break
            if nreg % 9 == 0 and hi - lo < 200000:
                bf = clr.bins().fetch(("frag", s_, e_))
                c.check(len(bf) == hi - lo and (len(bf) == 0 or (int(bf["start"].iloc[0]) == int(edges[lo]) and int(bf["end"].iloc[-1]) == int(edges[hi]))),
                        "bins-fetch-wrong-rows:>2^20-bins", f"bins().fetch(('frag', {s_}, {e_})) returns {len(bf)} rows, expected {hi - lo}")
            if len(ctx.failures) > 5:
                break
        got = tuple(int(x) for x in clr.extent("frag"))
        c.check(got == (offs["frag"], offs["frag"] + nb), "extent-wrong-bins:>2^20-bins", f"extent('frag') = {got}")
        got = tuple(int(x) for x in clr.extent(f"frag:{blk - 5}-"))
        c.check(got[1] == offs["frag"] + nb, "extent-wrong-bins:>2^20-bins", f"open-ended extent('frag:{blk - 5}-') = {got}")
        pf = clr.pixels().fetch("frag")
        wantn = int(((pix["bin1_id"] >= offs["frag"]) & (pix["bin1_id"] < offs["frag"] + nb)).sum())
        c.check(len(pf) == wantn, "pixels-fetch-wrong-rows:>2^20-bins", f"pixels().fetch('frag') returns {len(pf)} rows, expected {wantn}")
        ctx.evaluations += nreg
        c.nontrivial("megabins", nb, tuple(order))
    os.remove(path)
