"""C11 Balancing depends on the data only, not on chunking or scheduling."""
from __future__ import annotations

import os
import warnings
from operator import add

import numpy as np

from .. import gen, ic, probes, sched
from ..build import make_cooler
from .c10 import gen_balance_cooler, gen_options

RULE = ("per generated cooler/option vector one HISTORY of executions of the real balance_cooler: chunk sizes {1,2,3,7, "
        "nnz-1, nnz, nnz+1, 1e7, None} x map implementations {builtin map, eager list, reverse-evaluation ordered, "
        "lazy generator, seeded random-permutation unordered, bursty unordered, real multiprocess Pool.map / imap / "
        "imap_unordered with 2-4 workers and injected per-task delays} x repeated runs; offline checks over the merged "
        "event log: (1) all weight vectors agree with each other and with the dense reference (rtol 1e-9, identical NaN "
        "pattern), scale/converged agree; (2) exactly-once: in every pass the spans fetched == the pass keys and, clipped "
        "to nnz, tile the pass's pixel range without gap or overlap, rows returned sum to the range size; (3) "
        "parallel.split(...).pipe(count).reduce/gather == nnz for every chunk size. Non-trivial: >= 2 executions of a "
        "cooler with >= 10 pixels; distinct = (cooler, options, chunksize, map)")
ASSUMPTIONS = ["`cooler balance --ignore-dist D` ignores max(--ignore-diags, ceil(D/binsize)) diagonals (every diagonal "
               "that can hold contacts closer than D bp)",
               "if any run of a history stops with var within 1e-6 of tol, iteration counts may differ by one: that history "
               "is inconclusive", "the same x0 array object is passed to every run of a history"]
MIN_NONTRIVIAL = {"quick": 120, "thorough": 1200}
REQUIRED_PROBES = ["pipe_reduce"]
REQUIRED_FEATURES = ["map:builtin", "map:eager", "map:reverse-ordered", "map:unordered-permuted", "map:bursty-unordered",
                     "map:pool.map", "map:pool.imap", "map:pool.imap_unordered", "map:threads.map", "map:threads.imap_unordered", "chunksize:1", "chunksize:None",
                     "chunksize:nnz+1", "mode:gw", "mode:cis", "mode:trans", "split-pipeline", "via:cli-balance", "history:path-reused", "history:failed-run-then-repeated-run:use_lock",
                     "history:long-lived-object-after-file-regenerated-with-more-pixels",
                     "cli-balance:ignore-dist:not-a-multiple-of-binsize", "data:signed-integers-cancelling-within-chunks"]
SHARD_TIMEOUT = {"quick": 1800, "thorough": 7200}


def plan(tier, seed):
    n = 16 if tier == "quick" else 48
    per = 2 if tier == "quick" else 14
    return [{"kind": "hist", "sub": i, "cases": per} for i in range(n)]


def run(ctx, shard):
    probes.activate(ctx, owned={"pipe_reduce"})
    probes.probe_balance_pipeline()
    warnings.simplefilter("ignore")
    rng0 = ctx.rng("plan", shard["sub"])
    for i in range(shard["cases"]):
        seedk = int(rng0.integers(2**31))
        rng = ctx.rng("case", shard["sub"], i, seedk)
        one_history(ctx, shard, i, rng, shard["sub"] * 10 + i)


def check_passes(c, evs, nnz, label, cis_ranges=None):
    """exactly-once over the recorded fetch events of one execution."""
    passes, cur = [], None
    for e in evs:
        if e["ev"] == "pass_begin":
            cur = {"keys": [tuple(k) for k in (e["keys"] or [])], "fetch": []}
        elif e["ev"] == "fetch" and cur is not None:
            cur["fetch"].append((e["lo"], e["hi"], e["rows"], e["pid"]))
        elif e["ev"] == "pass_end" and cur is not None:
            passes.append(cur)
            cur = None
    npass = 0
    for p in passes:
        npass += 1
        keys = sorted(p["keys"])
        got = sorted((lo, hi) for lo, hi, _, _ in p["fetch"])
        c.ctx.oracle_evals += 1
        if got != keys:
            missing = [k for k in keys if k not in got]
            dup = [k for k in set(got) if got.count(k) > 1]
            c.fail("pass-spans-not-fetched-exactly-once", f"[{label}] a pass fetched spans {got[:8]}... for keys {keys[:8]}... "
                   f"(missing {missing[:4]}, repeated {dup[:4]})")
            return npass
        clipped = sorted((min(lo, nnz), min(hi, nnz)) for lo, hi in keys)
        clipped = [s for s in clipped if s[1] > s[0]]
        if clipped:
            lo0, hi0 = clipped[0][0], clipped[-1][1]
            tiles = all(clipped[k][1] == clipped[k + 1][0] for k in range(len(clipped) - 1))
            rows = sum(r for _, _, r, _ in p["fetch"])
            ok_range = (lo0, hi0) == (0, nnz) or (cis_ranges is not None and (lo0, hi0) in cis_ranges)
            if not (tiles and rows == hi0 - lo0 and ok_range):
                c.fail("pass-does-not-tile-pixel-range", f"[{label}] pass spans {clipped[:6]}... do not tile a full pixel range "
                       f"(covers [{lo0},{hi0}) of nnz={nnz}, rows returned {rows})")
                return npass
    return npass


def one_history(ctx, shard, i, rng, idx):
    import cooler
    import multiprocess as mp
    from cooler.parallel import split

    bt, n, P, isfloat, pat = gen_balance_cooler(rng, idx, max_bins=22)
    chrom_of = gen.bt_chrom_of(bt)
    mode, opts = gen_options(rng, n, chrom_of, idx)
    opts["max_iters"] = int([30, 60, 200][int(rng.integers(3))])
    opts["tol"] = float([1e-3, 1e-5, 1e-6][int(rng.integers(3))])
    path = ctx.path()
    make_cooler(path, bt, P, count_dtype=np.float64 if isfloat else None)
    clr = cooler.Cooler(path)
    nnz = len(P)
    ref = ic.ref_ic(P, n, chrom_of, **{k: (v.copy() if isinstance(v, np.ndarray) else v) for k, v in opts.items()})
    with np.errstate(all="ignore"):
        rv = np.atleast_1d(np.asarray(ref["var"], dtype=float))
    # pixel ranges per chromosome (cis mode runs its passes over these)
    keys_sorted = sorted(P)
    offs = ref["offsets"]
    b1 = np.array([k[0] for k in keys_sorted])
    cis_ranges = {(int(np.searchsorted(b1, lo)), int(np.searchsorted(b1, hi))) for lo, hi in zip(offs[:-1], offs[1:])}
    base_desc = {"bt": [[c_, len(e) - 1] for c_, e in bt], "mode": mode, "nnz": nnz,
                 "options": {k: (v.tolist() if isinstance(v, np.ndarray) else v) for k, v in opts.items()},
                 "pixels": sorted((a, b, v) for (a, b), v in P.items())[:150]}
    it_cap = min(opts["max_iters"], 60)
    sizes = [1, 2, 3, 7, max(nnz - 1, 1), max(nnz, 1), nnz + 1, 10**7, None]
    small = [cs for cs in sizes if cs is not None and (-(-nnz // cs)) * it_cap > 900]
    perm_log, pool_log = [], []
    execs = []
    maps = ["builtin", "eager", "reverse-ordered", "lazy-gen", "unordered-permuted", "unordered-permuted",
            "unordered-permuted", "bursty-unordered", "pool.map", "pool.imap", "pool.imap_unordered", "builtin", "eager",
            "threads.map", "threads.imap_unordered"]
    for k, mname in enumerate(maps):
        pool_k = mname.startswith("pool")
        cands = [cs for cs in sizes if cs not in small] if pool_k or k % 2 else sizes
        cs = cands[int(rng.integers(len(cands)))]
        if cs in small and any(e[1] in small for e in execs):
            cs = [c_ for c_ in sizes if c_ not in small][int(rng.integers(len(sizes) - len(small)))]
        execs.append((mname, cs, k))
    results = []
    pool = None
    tpool = None
    tie = False
    try:
        for mname, cs, k in execs:
            cid = f"h:{shard['sub']}:{i}:{k}"
            if not ctx.want(cid):
                continue
            with ctx.case(cid, dict(base_desc, map=mname, chunksize=cs)) as c:
                c.feature(f"map:{mname}", f"mode:{mode}",
                          "chunksize:None" if cs is None else "chunksize:1" if cs == 1 else
                          "chunksize:nnz+1" if cs == nnz + 1 else "chunksize:nnz" if cs == nnz else "chunksize:other")
                if mname == "builtin":
                    m = map
                elif mname == "eager":
                    m = sched.eager_map
                elif mname == "reverse-ordered":
                    m = sched.reverse_eval_map
                elif mname == "lazy-gen":
                    m = sched.lazy_gen_map
                elif mname == "unordered-permuted":
                    m = sched.make_unordered_map(ctx.seed * 100 + k, perm_log)
                elif mname == "bursty-unordered":
                    m = sched.make_bursty_unordered_map(ctx.seed * 100 + k, perm_log)
                elif mname.startswith("threads"):
                    # a thread pool: several chunks are in flight inside ONE process, sharing the pipeline's objects
                    from multiprocessing.pool import ThreadPool
                    if tpool is None:
                        tpool = ThreadPool(4)
                    m = tpool.map if mname == "threads.map" else tpool.imap_unordered
                else:
                    if pool is None:
                        pool = mp.Pool(int([2, 3, 4][int(rng.integers(3))]))
                    meth = {"pool.map": pool.map, "pool.imap": pool.imap, "pool.imap_unordered": pool.imap_unordered}[mname]
                    m = sched.pool_map_tagged(meth, ctx.seed * 100 + k, pool_log, max_ms=2.0)
                # the SAME option objects (x0 array, blacklist) go into every run of the history: a run may not
                # leave anything behind in its arguments that changes the next one (F35: x0 was used as the work array)
                kw = dict(opts)
                bias, stats = cooler.balance_cooler(clr, chunksize=cs, map=m, **kw)
                evs = probes.collect_worker_events(ctx)
                npass = check_passes(c, evs, nnz, f"{mname} cs={cs}", cis_ranges if mode == "cis" else None)
                c.check(npass >= 1, "harness:no-pass-observed", "no pipeline pass was observed")
                var = np.atleast_1d(np.asarray(stats["var"], dtype=float))
                with np.errstate(all="ignore"):
                    if np.any(np.abs(var - opts["tol"]) <= 1e-6 * opts["tol"]):
                        tie = True
                results.append((mname, cs, bias, stats))
                # against the dense reference
                if not tie:
                    with np.errstate(all="ignore"):
                        same_nan = np.array_equal(np.isnan(bias), np.isnan(ref["bias"]))
                        close = same_nan and np.allclose(bias, ref["bias"], rtol=1e-9, atol=0, equal_nan=True)
                    if not close:
                        c.fail(f"weights-differ-from-dense-procedure:{mode}", f"[{mname} cs={cs}] weights differ from the documented "
                               f"procedure on the dense matrix (same NaN pattern: {same_nan})",
                               {"got": bias, "ref": ref["bias"]})
                    with np.errstate(all="ignore"):
                        c.check(bool(np.all(np.asarray(stats["converged"]) == np.asarray(ref["converged"]))),
                                "converged-flag-differs-from-dense-procedure", f"[{mname} cs={cs}] converged={stats['converged']} "
                                f"but the dense procedure gives {ref['converged']}")
                    dev = np.nanmax(np.abs(bias / ref["bias"] - 1)) if np.isfinite(bias).any() else 0.0
                    if np.isfinite(dev):
                        ctx.maxstat("max_rel_deviation_from_dense_reference", float(dev))
                if nnz >= 10:
                    c.nontrivial(repr(base_desc["bt"]), repr(base_desc["options"]), repr(sorted(P.items())[:50]), mname, cs)
                if k < 2:
                    ctx.sample({"mode": mode, "map": mname, "chunksize": cs, "nnz": nnz, "passes": npass}, limit=6)
        # -------- the CLI path: `cooler balance -p 2` (real Pool.imap_unordered), stored column == API result
        cid = f"h:{shard['sub']}:{i}:cli"
        if ctx.want(cid) and "x0" not in opts and opts["rescale_marginals"] and not tie:
            with ctx.case(cid, dict(base_desc, via="cooler balance")) as c:
                from click.testing import CliRunner
                from cooler.cli import cli
                import h5py
                cands = [cs for cs in sizes if cs is not None and cs not in small]
                cs = cands[int(rng.integers(len(cands)))]
                npr = int([1, 2, 3][int(rng.integers(3))])
                args = ["balance", path, "-c", str(cs), "-p", str(npr), "--name", "wcli", "--force",
                        "--ignore-diags", str(opts["ignore_diags"]), "--mad-max", str(opts["mad_max"]),
                        "--min-nnz", str(opts["min_nnz"]), "--min-count", str(opts["min_count"]),
                        "--tol", repr(opts["tol"]), "--max-iters", str(opts["max_iters"])]
                if mode == "cis":
                    args.append("--cis-only")
                elif mode == "trans":
                    args.append("--trans-only")
                if opts.get("blacklist"):
                    bf = os.path.join(ctx.tmp, f"bl_{shard['sub']}_{i}.bed")
                    gen.write_blacklist_bed(rng, bf, gen.blacklist_bed(rng, bt, opts["blacklist"]))
                    args += ["--blacklist", bf]
                    c.feature("cli-balance:blacklist-bed")
                ref_cli = ref
                if rng.random() < 0.6:
                    # --ignore-dist D (bp): every diagonal that can hold contacts closer than D is ignored, i.e.
                    # max(--ignore-diags, ceil(D / binsize)) diagonals (bins are 100 bp wide here)
                    D = (opts["ignore_diags"] + int(rng.integers(0, 2))) * 100 + int([0, 1, 50, 99][int(rng.integers(4))])
                    D = max(D, 1)
                    args += ["--ignore-dist", str(D)]
                    kdiag = max(opts["ignore_diags"], -(-D // 100))
                    c.feature("cli-balance:ignore-dist" + (":not-a-multiple-of-binsize" if D % 100 else ":multiple"))
                    if kdiag != opts["ignore_diags"]:
                        o_ = {k_: (v_.copy() if isinstance(v_, np.ndarray) else v_) for k_, v_ in opts.items()}
                        o_["ignore_diags"] = kdiag
                        ref_cli = ic.ref_ic(P, n, chrom_of, **o_)
                r = CliRunner().invoke(cli, args)
                c.feature("via:cli-balance", f"cli-balance:nproc={npr}")
                if r.exit_code != 0:
                    raise (r.exception or RuntimeError(r.output[-300:]))
                with h5py.File(path, "r") as f:
                    wcli = f["bins/wcli"][:]
                with np.errstate(all="ignore"):
                    same = np.array_equal(np.isnan(wcli), np.isnan(ref_cli["bias"])) and \
                        np.allclose(wcli, ref_cli["bias"], rtol=1e-9, atol=0, equal_nan=True)
                tie_cli = bool(np.any(np.abs(np.atleast_1d(np.asarray(ref_cli["var"], dtype=float)) - opts["tol"]) <= 1e-6 * opts["tol"]))
                if not same and tie_cli:
                    c.inconclusive("CLI run: reference variance within 1e-6 of tol")
                else:
                    c.check(same, f"cli-balance-weights-differ:{mode}", f"`cooler {' '.join(args[2:])}` stored weights that differ "
                            f"from the documented procedure / the API result", {"got": wcli, "ref": ref_cli["bias"]})
                probes.collect_worker_events(ctx)
        # -------- cross-execution agreement
        cid = f"h:{shard['sub']}:{i}:agree"
        if ctx.want(cid) and len(results) >= 2:
            with ctx.case(cid, dict(base_desc, executions=[(m_, cs_) for m_, cs_, _, _ in results])) as c:
                if tie:
                    c.inconclusive("a run stopped with var within 1e-6 of tol: iteration counts may differ by one")
                else:
                    b0 = results[0][2]
                    for m_, cs_, b_, st_ in results[1:]:
                        with np.errstate(all="ignore"):
                            same = np.array_equal(np.isnan(b_), np.isnan(b0)) and np.allclose(b_, b0, rtol=1e-9, atol=0, equal_nan=True)
                        if not same:
                            unordered = "unordered" in m_ or "unordered" in results[0][0]
                            c.fail(f"weights-depend-on-{'schedule' if unordered else 'chunking-or-map'}:{mode}",
                                   f"weights of ({m_}, chunksize={cs_}) differ from ({results[0][0]}, chunksize={results[0][1]})",
                                   {"a": b0, "b": b_})
                            break
                        with np.errstate(all="ignore"):
                            c.check(np.allclose(np.atleast_1d(st_["scale"]), np.atleast_1d(results[0][3]["scale"]), rtol=1e-9, equal_nan=True)
                                    and bool(np.all(np.asarray(st_["converged"]) == np.asarray(results[0][3]["converged"]))),
                                    "stats-depend-on-chunking-or-schedule", f"scale/converged of ({m_}, {cs_}) differ")
        # -------- (3) the split-apply-combine pipeline visits every pixel exactly once
        cid = f"h:{shard['sub']}:{i}:split"
        if ctx.want(cid):
            with ctx.case(cid, dict(base_desc, split=True)) as c:
                c.feature("split-pipeline")
                for cs in [1, 2, 3, 7, max(nnz - 1, 1), max(nnz, 1), nnz + 1, 10**7]:
                    if cs is not None and nnz / cs > 400:
                        continue
                    for mname, m in (("builtin", map), ("reverse", sched.reverse_eval_map),
                                     ("unordered", sched.make_unordered_map(cs + 1))):
                        tot = split(clr, map=m, chunksize=cs).pipe(lambda ch: len(ch["pixels"]["bin1_id"])).reduce(add, 0)
                        c.check(tot == nnz, "split-pipeline-does-not-visit-each-pixel-once",
                                f"split(chunksize={cs}, map={mname}).reduce counted {tot} pixels, nnz={nnz}")
                        ids = split(clr, map=m, chunksize=cs).pipe(
                            lambda ch: list(zip(ch["pixels"]["bin1_id"].tolist(), ch["pixels"]["bin2_id"].tolist()))).gather()
                        flat = sorted(x for part in ids for x in part)
                        c.check(flat == keys_sorted, "split-pipeline-does-not-visit-each-pixel-once",
                                f"split(chunksize={cs}, map={mname}).gather does not return every stored pixel exactly once")
                probes.collect_worker_events(ctx)
    finally:
        if pool is not None:
            pool.close()
            pool.join()
        if tpool is not None:
            tpool.close()
            tpool.join()
    # signed integer data (e.g. a difference map), ONE iteration, no MAD filter: every marginal is an exact integer sum in
    # any order, so the weights are exactly independent of the chunk size - also when values cancel inside a chunk
    cid = f"h:{shard['sub']}:{i}:signed"
    if ctx.want(cid) and n >= 6:
        with ctx.case(cid, dict(base_desc, data="signed integers with cancelling neighbours", pixels=None)) as c:
            c.feature("data:signed-integers-cancelling-within-chunks")
            Ps = {}
            for (a, b_) in gen.gen_pixels(rng, n, True, "dense"):
                v = int(rng.integers(1, 9))
                Ps[(a, b_)] = v if (a + b_) % 2 else -v
            for a in range(0, n - 1, 3):                     # exact cancellation of adjacent records of one row
                for b_ in range(a + 1, n - 1, 2):
                    if (a, b_) in Ps and (a, b_ + 1) in Ps:
                        Ps[(a, b_ + 1)] = -Ps[(a, b_)]
            sp = ctx.path()
            make_cooler(sp, bt, Ps, count_dtype=np.int64)
            sclr = cooler.Cooler(sp)
            o = dict(ignore_diags=0, mad_max=0, min_nnz=0, min_count=0, tol=1e-9, max_iters=1, rescale_marginals=False)
            outs = []
            for cs in (None, 1, 2, 3, 4, 6, len(Ps)):
                with np.errstate(all="ignore"):
                    b_s, _ = cooler.balance_cooler(sclr, chunksize=cs, **o)
                outs.append((cs, b_s))
            for cs, b_s in outs[1:]:
                with np.errstate(all="ignore"):
                    same = np.array_equal(np.isnan(b_s), np.isnan(outs[0][1])) and \
                        np.allclose(b_s, outs[0][1], rtol=1e-12, atol=0, equal_nan=True)
                if not c.check(same, "weights-depend-on-chunking-or-map:signed-integer-data",
                               f"one iteration on signed integer data: weights with chunksize={cs} differ from chunksize=None",
                               {"a": outs[0][1], "b": b_s}):
                    break
            os.remove(sp)
    cid = f"h:{shard['sub']}:{i}:failed-run-then-lock"
    if ctx.want(cid) and nnz >= 2:
        with ctx.case(cid, dict(base_desc, history="a run whose chunk fetches fail (file gone), then the same run again, use_lock=True")) as c:
            import cooler.parallel as PAR
            c.feature("history:failed-run-then-repeated-run:use_lock")
            o4 = dict(ignore_diags=1, mad_max=0, min_nnz=0, min_count=0, tol=1e-6, max_iters=50, rescale_marginals=True)
            clr4 = cooler.Cooler(path)
            ref4, _ = cooler.balance_cooler(clr4, chunksize=max(nnz // 2, 1), use_lock=True, **o4)

            def gone_map(f_, it_):
                # the tasks run while the file is away: every fetch fails
                os.rename(path, path + ".away")
                try:
                    return list(map(f_, it_))
                finally:
                    os.rename(path + ".away", path)
            failed = None
            try:
                cooler.balance_cooler(clr4, chunksize=max(nnz // 2, 1), map=gone_map, use_lock=True, **o4)
            except Exception as e:  # noqa
                failed = type(e).__name__
            c.check(failed is not None, "harness:fault-not-delivered", "the run with the file away did not fail")
            # logical observation instead of a deadline: is the module's lock still held after the failed run?
            free = PAR.lock.acquire(False)
            PAR.lock.release()          # (our probe's hold or the leaked one: the rest of the shard must not hang)
            c.check(free, "lock-held-after-failed-run", f"cooler.parallel.lock is still held after a run that failed with {failed}: "
                    "a repeated run with use_lock=True would block forever")
            again, _ = cooler.balance_cooler(clr4, chunksize=max(nnz // 2, 1), use_lock=True, **o4)
            c.check(np.array_equal(again, ref4, equal_nan=True), "repeated-run-differs-after-failed-run",
                    "the run repeated after a failed one does not give the same weights")
            c.nontrivial("failed-run", repr(base_desc.get("bt")), nnz)
            probes.collect_worker_events(ctx)        # drain this case's pipeline events: they belong to no later case
    cid = f"h:{shard['sub']}:{i}:path-reuse"
    if ctx.want(cid) and n >= 6:
        with ctx.case(cid, dict(base_desc, history="file at the same path replaced by another cooler")) as c:
            c.feature("history:path-reused")
            # same number of bins, another chromosome layout and other data
            cut = int(rng.integers(2, n - 1))
            while cut in offs:
                cut = cut + 1 if cut + 1 < n - 1 else 2
            bt2 = [["chrA", list(range(0, cut * 100 + 1, 100))], ["chrB", list(range(0, (n - cut) * 100 + 1, 100))]]
            P2 = {}
            for (a, b_) in gen.gen_pixels(rng, n, True, "dense"):
                P2[(a, b_)] = int(rng.integers(1, 60))
            make_cooler(path, bt2, P2)
            clr2 = cooler.Cooler(path)
            co2 = gen.bt_chrom_of(bt2)
            for mode2 in ("cis", "trans"):
                o2 = dict(cis_only=mode2 == "cis", trans_only=mode2 == "trans", ignore_diags=1, mad_max=0, min_nnz=0,
                          min_count=0, tol=1e-6, max_iters=200, rescale_marginals=True)
                b2, st2 = cooler.balance_cooler(clr2, chunksize=int([3, 10**7][int(rng.integers(2))]), **o2)
                r2_ = ic.ref_ic(P2, n, co2, **o2)
                with np.errstate(all="ignore"):
                    same = np.array_equal(np.isnan(b2), np.isnan(r2_["bias"])) and \
                        np.allclose(b2, r2_["bias"], rtol=1e-9, atol=0, equal_nan=True)
                c.check(same, f"weights-depend-on-process-history:{mode2}",
                        f"after the file at the same path was replaced, {mode2}-only balancing does not give the weights "
                        f"of the documented procedure for the NEW data", {"got": b2, "ref": r2_["bias"]})
            # ... and replaced once more by a cooler over the ORIGINAL bins holding more pixels; the Cooler object
            # created before all of this is used again (its attributes are read live from the file)
            P3 = {kk: int(rng.integers(1, 60)) for kk in gen.gen_pixels(rng, n, True, "dense")}
            if len(P3) > nnz:
                make_cooler(path, bt, P3)
                c.feature("history:long-lived-object-after-file-regenerated-with-more-pixels")
                o3 = dict(ignore_diags=1, mad_max=0, min_nnz=0, min_count=0, tol=1e-6, max_iters=200, rescale_marginals=True)
                cs3 = [None, 3, max(nnz // 2, 1)][int(rng.integers(3))]
                b3, st3 = cooler.balance_cooler(clr, chunksize=cs3, **o3)
                r3 = ic.ref_ic(P3, n, chrom_of, **o3)
                with np.errstate(all="ignore"):
                    same = np.array_equal(np.isnan(b3), np.isnan(r3["bias"])) and \
                        np.allclose(b3, r3["bias"], rtol=1e-9, atol=0, equal_nan=True)
                c.check(same, "weights-depend-on-process-history:long-lived-object",
                        f"a Cooler object opened before the file was regenerated (same bins, {len(P3)} instead of {nnz} pixels) "
                        f"balanced with chunksize={cs3}: weights are not those of the data now in the file",
                        {"got": b3, "ref": r3["bias"]})
            probes.collect_worker_events(ctx)
    perms = {p for p in perm_log}
    ctx.extra["distinct_adversarial_completion_orders"] = ctx.extra.get("distinct_adversarial_completion_orders", 0) + len(perms)
    porders = {p["completion_order"] for p in pool_log}
    ctx.extra["pool_passes_observed"] = ctx.extra.get("pool_passes_observed", 0) + len(pool_log)
    ctx.extra["distinct_pool_completion_orders"] = ctx.extra.get("distinct_pool_completion_orders", 0) + len(porders)
    ctx.extra["pool_passes_out_of_order"] = ctx.extra.get("pool_passes_out_of_order", 0) + sum(
        1 for p in pool_log if list(p["completion_order"]) != sorted(p["completion_order"]))
    ctx.extra["distinct_worker_assignments"] = ctx.extra.get("distinct_worker_assignments", 0) + len(
        {tuple(zip(p["completion_order"], p["pids"])) for p in pool_log})
    if os.path.exists(path):
        os.remove(path)
