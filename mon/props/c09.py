"""C09 Every zoom level of a multires file equals direct coarsening of its base."""
from __future__ import annotations

import math
import os

import h5py
import numpy as np

from .. import gen, h5state, model, probes
from ..build import make_cooler, read_pixels_raw
from .c08 import check_output

RULE = ("generated base coolers (fixed and variable width, both modes) zoomified by the real zoomify_cooler / "
        "`cooler zoomify` for resolution sets (multiples in any order, with/without the base, mixed predecessors, "
        "duplicates, non-derivable members), one or two base URIs (second base = coarsening of the first, other file or "
        "group), chunk sizes and worker counts; after return: list_coolers == {/resolutions/r}, is_multires_file, every "
        "base level digest == source, every derived level == ref_coarsen(base, r/base) computed directly from the base, "
        "schema validator on every level; CLI -r spellings (lists, N, B, <r>N, <r>B, 4DN, mixed case) expanded "
        "independently. Non-trivial: >= 1 derived level and base has pixels; distinct = (base, resolution set, options)")
ASSUMPTIONS = ["a refused request has no effect on a multires file already present at the output path",
               "the second base of a two-base run is produced by coarsen_cooler (checked by C08)",
               "refusal of a non-derivable set is judged by the raised error and by no multires file being left"]
MIN_NONTRIVIAL = {"quick": 60, "thorough": 600}
REQUIRED_PROBES = ["multiplier_sequence", "create_exit"]
REQUIRED_FEATURES = ["bases:1", "bases:2", "base:variable-width", "base:fixed-width", "set:non-derivable",
                     "set:mixed-predecessors", "set:without-base", "cli:spec:N", "cli:spec:B", "cli:spec:<r>N",
                     "cli:spec:<r>B", "cli:spec:4DN", "cli:spec:list", "nproc>1",
                     "history:output-path-reused", "bases:mixed-value-dtypes", "cli:maxres-is-a-ladder-member",
                     "set:no-derived-level", "cli:base-is-level-of-mcool", "cli:base-in-subgroup-with-root-decoy",
                     "bases:second-base-has-own-content", "set:non-derivable:below-every-base",
                     "history:refused-request-onto-existing-mcool", "option:dtypes-empty-dict", "resolutions-arg:generator", "resolutions-arg:iterator", "cli:spec:4DN:genome>=6.4Gbp",
                     "bases:independent-2b-3b"]
SHARD_TIMEOUT = {"quick": 1800, "thorough": 7200}


def plan(tier, seed):
    n = 14 if tier == "quick" else 40
    per = 14 if tier == "quick" else 80
    s = [{"kind": "api", "sub": i, "cases": per} for i in range(n)]
    s += [{"kind": "cli", "sub": i, "cases": 6 if tier == "quick" else 14} for i in range(4 if tier == "quick" else 16)]
    s += [{"kind": "giant4dn", "sub": i, "cases": 1} for i in range(1 if tier == "quick" else 3)]
    return s


def run(ctx, shard):
    probes.activate(ctx, owned={"multiplier_sequence"})
    probes.probe_multiplier_sequence()
    probes.probe_create_exit()
    probes.probe_coarsen()
    rng0 = ctx.rng("plan", shard["kind"], shard["sub"])
    for i in range(shard["cases"]):
        seedk = int(rng0.integers(2**31))
        rng = ctx.rng("case", shard["kind"], shard["sub"], i, seedk)
        if shard["kind"] == "api":
            api_case(ctx, shard, i, rng)
        elif shard["kind"] == "giant4dn":
            giant_4dn_case(ctx, shard)
        else:
            cli_case(ctx, shard, i, rng)


def gen_base(rng, variable):
    if variable:
        bt = gen.gen_bt(rng, "variable", max_chroms=3, max_bins=18)
        b = 1
    else:
        b = int([1, 2, 5, 10, 1000][int(rng.integers(5))])
        fam = ["fixed_exact", "fixed_short", "fixed_onebin", "mixed"][int(rng.integers(4))]
        bt = gen.gen_bt(rng, fam, max_chroms=3, max_bins=24, widths=(b,))
        if gen.bt_fixed_width(bt) != b:       # e.g. only one-bin chromosomes: no width determined
            bt = [["chr1", gen.fixed_edges(7 * b + max(b // 2, 1), b)], ["chr2", gen.fixed_edges(3 * b, b)]]
    return bt, b


MULT_SETS = [[2, 4], [2, 3, 6], [6, 2, 3, 12, 4], [5, 10, 50, 25], [1, 2], [2, 4, 6, 12], [3], [2, 2, 4], [4, 2, 8, 16],
             [1, 3, 9], [10, 2, 20, 5], [7, 14], [1], []]


def level_is(out, grp, bt_, P_, k_):
    """level == coarsening of (bt_, P_) by k_ (bins and pixel table), without recording anything."""
    want_bt = model.ref_coarsen_bt(bt_, k_)
    with h5py.File(out, "r") as f:
        g = f[grp]
        names = [x.decode() for x in g["chroms/name"][:]]
        got_bins = list(zip([names[i] for i in g["bins/chrom"][:].tolist()], g["bins/start"][:].tolist(), g["bins/end"][:].tolist()))
    keys, cols = read_pixels_raw(out, grp, ("count",))
    want = model.ref_coarsen(bt_, P_, k_)
    wk = sorted(want)
    return got_bins == gen.bt_bins_list(want_bt) and keys == wk and cols["count"].tolist() == [want[x] for x in wk]


def verify_mcool(c, out, bt, P, symm, b, want_res, base_res, base_uri_by_res, label, alt=None):
    """All clauses on a finished multires file."""
    import cooler

    listing = cooler.fileops.list_coolers(out)
    want = sorted((f"/resolutions/{r}" for r in want_res), key=lambda s: int(s.rsplit("/", 1)[1]))
    c.check(sorted(listing) == sorted(want), "zoom-levels-listing-differs",
            f"[{label}] list_coolers = {listing}, expected {want}")
    c.check(cooler.fileops.is_multires_file(out), "not-recognised-as-multires", f"[{label}] is_multires_file is False")
    with h5py.File(out, "r") as f:
        raw_levels = sorted(f["resolutions"].keys(), key=int) if "resolutions" in f else []
    c.check(raw_levels == sorted((str(r) for r in want_res), key=int), "zoom-levels-raw-differ",
            f"[{label}] groups under /resolutions: {raw_levels}")
    for r in want_res:
        grp = f"/resolutions/{r}"
        if grp not in listing:
            continue
        bad = h5state.validate_uri(out, grp)
        for key, msg in bad:
            c.fail(f"level-invalid:{key}", f"[{label}] level {r}: {msg}")
        if r in base_res:
            src_path, src_grp = base_uri_by_res[r]
            tabs = ("chroms", "bins", "indexes")
            same = (h5state.digest_uri(out, grp, tables=tabs, attrs=False)
                    == h5state.digest_uri(src_path, src_grp, tables=tabs, attrs=False))
            k1, c1 = read_pixels_raw(out, grp, ("count",))
            k2, c2 = read_pixels_raw(src_path, src_grp, ("count",))
            same = same and k1 == k2 and c1["count"].tolist() == c2["count"].tolist() and c1["count"].dtype == c2["count"].dtype
            finer = [q for q in base_res if q < r and r % q == 0]
            c.check(same, "base-level-not-a-faithful-copy" + (":base-is-multiple-of-a-finer-base" if finer else ""),
                    f"[{label}] base level {r} differs from its source" +
                    (f" (another supplied base, {finer[0]}, divides it)" if finer else ""),
                    lambda: {"diff": h5state.diff_uris(out, src_path, grp, src_grp)[:8]})
        k = r // b
        if alt is not None and r == alt[2]:
            pass        # a base with content of its own: decided by the faithful-copy clause above
        elif alt is not None and r % alt[2] == 0:
            # derivable from either base: must equal coarsening of ONE of them (whatever chain was used)
            c.check(level_is(out, grp, bt, P, k) or level_is(out, grp, alt[0], alt[1], r // alt[2]),
                    "derived-level-equals-coarsening-of-no-base",
                    f"[{label}] level {r} is neither the {k}-coarsening of base {b} nor the {r // alt[2]}-coarsening of base {alt[2]}")
        elif k == 1:
            keys, cols = read_pixels_raw(out, grp, ("count",))
            c.check(keys == sorted(P) and cols["count"].tolist() == [P[x] for x in sorted(P)],
                    "base-level-not-a-faithful-copy", f"[{label}] level {r} differs from the generated base pixels")
        else:
            check_output(c, out, grp, bt, P, None, k, symm, None, f"{label} level {r}")
        with h5py.File(out, "r") as f:
            binsize = f[grp].attrs["bin-size"]
        if b > 1 or gen.bt_fixed_width(bt) is not None:
            fw = gen.bt_fixed_width(model.ref_coarsen_bt(bt, k))
            if fw is not None:
                c.check(binsize == fw, "level-bin-size-attr", f"[{label}] level {r} has bin-size {binsize!r}, expected {fw}")


def api_case(ctx, shard, i, rng):
    import cooler

    variable = bool((shard["sub"] + i) % 4 == 0)
    bt, b = gen_base(rng, variable)
    n = gen.bt_nbins(bt)
    symm = bool(rng.random() < 0.7)
    P = gen.gen_pixels(rng, n, symm, None)
    if not P and rng.random() < 0.8:
        P = gen.gen_pixels(rng, n, symm, "sparse30")
    d = ctx.newdir()
    base = os.path.join(d, "base.cool")
    base_grp = "/" if rng.random() < 0.7 else "/in/base"
    base_uri = base + ("::" + base_grp if base_grp != "/" else "")
    make_cooler(base_uri, bt, P, symm=symm)
    mults = list(MULT_SETS[int(rng.integers(len(MULT_SETS)))])
    mode = (shard["sub"] * 5 + i) % 6
    two_bases = mode == 1 and not variable
    own_base2 = None
    nonderiv = mode == 2
    res = [m * b for m in mults]
    bases = {b: (base, base_grp)}
    base_dtypes = {b: "int32"}
    base_uris = [base_uri]
    k2 = int([2, 3][int(rng.integers(2))])
    if two_bases and gen.bt_fixed_width(model.ref_coarsen_bt(bt, k2)) != b * k2:
        # the coarsened base would have no determinable width (e.g. only one-bin chromosomes):
        # cooler then treats it as a variable-width base "1" - legitimate, but not a second fixed base
        two_bases = False
    if two_bases:
        b2path = os.path.join(d, "base2.cool") if rng.random() < 0.5 else base
        b2grp = "/" if b2path != base else "/second"
        b2dt = np.float64 if rng.random() < 0.5 else None          # the second base may use another value dtype
        cooler.coarsen_cooler(base_uri, b2path + "::" + b2grp, k2, chunksize=10**6,
                              dtypes={"count": b2dt} if b2dt else None)
        if rng.random() < 0.5:
            # a second base with content of its own (separately filtered / balanced map at the coarser resolution):
            # other pixel values and a weight column in its bin table
            bt2 = model.ref_coarsen_bt(bt, k2)
            P2 = gen.gen_pixels(rng, gen.bt_nbins(bt2), symm, "sparse70") or {(0, 0): 7}
            P2 = {kk: v + 1000 for kk, v in P2.items()}
            w2 = np.round(rng.uniform(0.5, 2.0, size=gen.bt_nbins(bt2)), 6)
            make_cooler(b2path + "::" + b2grp, bt2, P2, symm=symm, bins_extra={"weight": w2}, mode="a",
                        count_dtype=b2dt)
            own_base2 = (bt2, P2, b * k2)
        base_dtypes[b * k2] = "float64" if b2dt else "int32"
        bases[b * k2] = (b2path, b2grp)
        base_uris.append(b2path + "::" + b2grp)
        res = sorted(set(res + [b * k2 * 2, b * k2 * 3]))
        if rng.random() < 0.5:
            base_uris.reverse()
    if nonderiv:
        bad = b * max(mults + [2]) + (1 if b > 1 or variable else 0)
        if bad % b == 0:
            bad = None
        if b > 2 and rng.random() < 0.6:
            bad = int(rng.integers(1, b))          # finer than every base: cannot be derived by aggregation either
        if bad is None:
            # base width 1: every integer is derivable; use a two-step set whose member is below the base
            nonderiv = False
        else:
            res.insert(int(rng.integers(len(res) + 1)), bad)
    indep = mode == 4 and not variable and gen.bt_fixed_width(model.ref_coarsen_bt(bt, 2)) == 2 * b \
        and gen.bt_fixed_width(model.ref_coarsen_bt(bt, 3)) == 3 * b
    if indep:
        # two bases that are NOT derivable from one another (2b and 3b, both coarsenings of an unsupplied
        # finer cooler) with different value dtypes; every level must equal coarsening of the finer cooler
        a_uri, b_uri = os.path.join(d, "baseA.cool"), os.path.join(d, "baseB.cool") + "::/deep/b"
        cooler.coarsen_cooler(base_uri, a_uri, 2, chunksize=10**6)
        cooler.coarsen_cooler(base_uri, b_uri, 3, chunksize=10**6, dtypes={"count": np.float64})
        bases = {2 * b: (a_uri, "/"), 3 * b: (os.path.join(d, "baseB.cool"), "/deep/b")}
        base_dtypes = {2 * b: "int32", 3 * b: "float64"}
        base_uris = [a_uri, b_uri] if rng.random() < 0.5 else [b_uri, a_uri]
        res = [b * m for m in [[4, 9], [4, 8, 9, 27], [6, 9, 4], [9, 18, 4], [4, 9, 12]][int(rng.integers(5))]]
        nonderiv = False
    cs = int([1, 7, 10**7][int(rng.integers(3))])
    nproc = 2 if rng.random() < 0.15 else 1
    out = os.path.join(d, "out.mcool")
    cid = f"z:{shard['sub']}:{i}"
    if not ctx.want(cid):
        return
    desc = {"bt": bt, "symm": symm, "base_binsize": b, "variable": variable, "resolutions": res, "bases": sorted(bases),
            "chunksize": cs, "nproc": nproc, "pixels": sorted((a, c_, v) for (a, c_), v in P.items())[:120]}
    with ctx.case(cid, desc) as c:
        c.feature(f"bases:{len(bases)}", "base:variable-width" if variable else "base:fixed-width")
        if indep:
            c.feature("bases:independent-2b-3b")
        if nproc > 1:
            c.feature("nproc>1")
        if b not in res:
            c.feature("set:without-base")
        if not (set(res) - set(bases)):
            c.feature("set:no-derived-level")
        srt = sorted(set(res) | set(bases))
        if any(all(r % q for q in srt[:j][-1:]) and any(r % q == 0 for q in srt[:j]) for j, r in enumerate(srt) if j):
            c.feature("set:mixed-predecessors")
        if len(set(res)) < len(res):
            c.feature("set:duplicates")
        if nonderiv:
            c.feature("set:non-derivable", "set:non-derivable:below-every-base" if bad < b else "set:non-derivable:above")
            older = None
            if rng.random() < 0.5:
                # history: a good multires file already sits at the output path; a refused request must leave it alone
                cooler.zoomify_cooler(base_uri, out, [b * 2, b * 4], chunksize=10**6)
                with h5py.File(out, "r") as f:
                    older = (sorted(f["resolutions"].keys()), dict(f.attrs).get("format"))
                c.feature("history:refused-request-onto-existing-mcool")
            raised = None
            try:
                cooler.zoomify_cooler(base_uris, out, res, chunksize=cs, nproc=nproc)
            except ValueError as e:
                raised = str(e)
            c.check(raised is not None, "non-derivable-resolution-accepted",
                    f"resolution set {res} with base {sorted(bases)} was not refused")
            if older is None:
                made = os.path.exists(out) and h5py.is_hdf5(out) and cooler.fileops.is_multires_file(out)
                c.check(not made, "refused-zoomify-left-multires-file", "a refused zoomify left a multires file")
            elif raised is not None:
                now = None
                if os.path.exists(out) and h5py.is_hdf5(out):
                    with h5py.File(out, "r") as f:
                        now = (sorted(f["resolutions"].keys()) if "resolutions" in f else [], dict(f.attrs).get("format"))
                c.check(now == older and cooler.fileops.is_multires_file(out), "refused-zoomify-changed-existing-output",
                        f"the request was refused ({raised[:60]}), but the multires file that was at the output path "
                        f"before (levels, format tag = {older}) is now {now}")
            c.nontrivial("nonderiv", repr(bt), tuple(res))
            return
        if rng.random() < 0.35:
            # history: the output path already holds an older multires file with another ladder
            old_res = [b * m for m in (3, 7, 11)]
            cooler.zoomify_cooler(base_uri, out, old_res, chunksize=10**6)
            c.feature("history:output-path-reused")
        zkw = {}
        if rng.random() < 0.35:
            zkw["dtypes"] = {}           # "no overrides" spelled as an empty dict (what `cooler zoomify --field count` passes)
            c.feature("option:dtypes-empty-dict")
        rform = int(rng.integers(5))
        res_arg = {0: res, 1: tuple(res), 2: np.array(res, dtype=np.int64) if res else res, 3: iter(list(res)),
                   4: (r_ for r_ in list(res))}[rform]
        c.feature("resolutions-arg:" + ["list", "tuple", "ndarray", "iterator", "generator"][rform])
        cooler.zoomify_cooler(base_uris if len(base_uris) > 1 else base_uris[0], out, res_arg, chunksize=cs, nproc=nproc, **zkw)
        want_res = sorted(set(res) | set(bases))
        if own_base2:
            c.feature("bases:second-base-has-own-content")
        verify_mcool(c, out, bt, P, symm, b, want_res, set(bases), bases, "api", alt=own_base2)
        # value dtype of every level == dtype of the base it derives from (largest smaller divisor chain)
        if len(set(base_dtypes.values())) > 1:
            c.feature("bases:mixed-value-dtypes")
        # (a derived level may come from any base that divides it - whatever chain was used)
        with h5py.File(out, "r") as f:
            for r in want_res:
                dt = str(f[f"/resolutions/{r}/pixels/count"].dtype)
                allowed = {base_dtypes[q] for q in bases if r % q == 0}       # whatever chain was used
                c.check(dt in allowed, "level-value-dtype-not-from-a-base-it-derives-from",
                        f"level {r} can only derive from bases with dtype {sorted(allowed)} but stores count as {dt}")
        if P and any(r > b for r in want_res):
            c.nontrivial(repr(bt), repr(sorted(P.items())), tuple(res), tuple(sorted(bases)), cs, nproc)
        ctx.sample({"base_binsize": b, "variable": variable, "resolutions": res, "bases": sorted(bases),
                    "levels": want_res, "nbins": n, "nnz": len(P)}, limit=5)


# ---------------------------------------------------------------- CLI -r spellings
def nice_seq(start, stop):
    out, s = [], start
    while True:
        for m in (1, 2, 5):
            v = s * m
            if v > stop:
                return out if out else []
            out.append(v)
        s *= 10


def binary_seq(start, stop):
    out, v = [], start
    while v <= stop:
        out.append(v)
        v *= 2
    return out


def cli_case(ctx, shard, i, rng):
    import cooler
    from click.testing import CliRunner
    from cooler.cli import cli

    specs = ["list", "N", "B", "<r>N", "<r>B", "4DN", "mixed", "default"]
    spec = specs[(shard["sub"] * 4 + i) % len(specs)]
    if spec == "4DN":
        b = 1000
        # >= 6.4 Mb so that the ladder reaches 25 kb (where 1000,2000,5000N differs from 1000N)
        lengths = [int(rng.integers(5_000_000, 6_000_000)), int(rng.integers(1_500_000, 2_500_000))]
    else:
        b = int([10, 100][int(rng.integers(2))])
        lengths = [int(rng.integers(600, 1500)) * b * 3, int(rng.integers(100, 700)) * b]
    if spec in ("N", "B", "<r>N", "<r>B", "default", "mixed") and rng.random() < 0.5:
        # the inclusive upper bound of the progression: ceil(L/256) is exactly a member of the ladder
        start = {"N": b, "B": b, "default": b, "<r>N": 2 * b, "<r>B": 3 * b, "mixed": 4 * b}[spec]
        ladder = nice_seq(start, start * 60) if spec in ("N", "<r>N") else binary_seq(start, start * 60)
        member = ladder[int(rng.integers(2, min(len(ladder), 5)))]
        total = 256 * member
        if rng.random() < 0.5:
            total -= int(rng.integers(1, 256))      # strictly inside (256*(member-1), 256*member): the bound rounds UP
        l2 = int(rng.integers(100, 700)) * b
        lengths = [total - l2, l2]
    bt = [["chr1", gen.fixed_edges(lengths[0], b)], ["chrX", gen.fixed_edges(lengths[1], b)]]
    n = gen.bt_nbins(bt)
    symm = True
    P = {}
    for _ in range(int(rng.integers(20, 200))):
        a_, c_ = sorted((int(rng.integers(n)), int(rng.integers(n))))
        P[(a_, c_)] = int(rng.integers(1, 20))
    d = ctx.newdir()
    base = os.path.join(d, "base.cool")
    base_grp = "/"
    where = int(rng.integers(4))
    if where == 1:
        # the base is a level of an existing multires file (re-zoomifying one's own output)
        base = os.path.join(d, "older.mcool")
        base_grp = f"/resolutions/{b}"
    elif where == 2:
        # the base sits in a sub-group of a file whose root is another cooler
        make_cooler(base, [["decoy", [0, 50, 100, 150]]], {(0, 1): 9, (2, 2): 4})
        base_grp = "/in/base"
    base_uri = base + ("::" + base_grp if base_grp != "/" else "")
    make_cooler(base_uri, bt, P, symm=symm, mode="a")
    genome = sum(lengths)
    maxres = int(math.ceil(genome / 256))
    if spec == "list":
        want = [b * 2, b * 4, b * 20]
        arg = ",".join(str(x) for x in want)
    elif spec == "N":
        want, arg = nice_seq(b, maxres), ["N", "n"][int(rng.integers(2))]
    elif spec == "B":
        want, arg = binary_seq(b, maxres), ["B", "b"][int(rng.integers(2))]
    elif spec == "<r>N":
        want, arg = nice_seq(2 * b, maxres), f"{2 * b}" + ["N", "n"][int(rng.integers(2))]
    elif spec == "<r>B":
        want, arg = binary_seq(3 * b, maxres), f"{3 * b}" + ["B", "b"][int(rng.integers(2))]
    elif spec == "4DN":
        want = [1000, 2000] + [x for x in nice_seq(5000, maxres)]
        arg = ["4DN", "4dn"][int(rng.integers(2))]
    elif spec == "mixed":
        want = [3 * b] + binary_seq(4 * b, maxres)
        arg = f"{3 * b},{4 * b}B"
    else:
        want, arg = binary_seq(b, maxres), None
    out = os.path.join(d, "cli.mcool")
    cid = f"zcli:{shard['sub']}:{i}"
    if not ctx.want(cid):
        return
    with ctx.case(cid, {"spec": spec, "arg": arg, "base_binsize": b, "lengths": lengths, "maxres": maxres,
                        "expected_levels": sorted(set(want) | {b})}) as c:
        c.feature(f"cli:spec:{spec}")
        if maxres in want:
            c.feature("cli:maxres-is-a-ladder-member")
        c.feature({0: "cli:base-at-root", 1: "cli:base-is-level-of-mcool", 2: "cli:base-in-subgroup-with-root-decoy",
                   3: "cli:base-at-root"}[where])
        args = ["zoomify", base_uri, "-o", out, "-c", str(int([50, 10**7][int(rng.integers(2))]))]
        if arg is not None:
            args += ["-r", arg]
        res = CliRunner().invoke(cli, args)
        if res.exit_code != 0:
            import traceback
            tb = "".join(traceback.format_exception(res.exception)) if res.exception else res.output
            c.fail(f"cli-resolution-spec-rejected:{spec}", f"cooler zoomify -r {arg} exit {res.exit_code}: "
                   f"{type(res.exception).__name__}: {res.exception}", {"tb": tb[-1500:]})
            return
        want_res = sorted(set(want) | {b})
        verify_mcool(c, out, bt, P, symm, b, want_res, {b}, {b: (base, base_grp)}, f"cli -r {arg}")
        c.nontrivial("cli", spec, arg, b, tuple(lengths))
        ctx.sample({"cli": f"cooler zoomify -r {arg}", "base_binsize": b, "levels": want_res}, limit=8)


def giant_4dn_case(ctx, shard):
    """Scale boundary of the 4DN ladder: a genome of 6.4-13 Gbp at 1 kb (the progression 1000,2000,5000N is open-ended,
    bounded only by ceil(L/256): 25 Mb - and 50 Mb from 12.8 Gbp - are members). Only the set of levels and the
    totals are judged here (the per-level contents are decided on small inputs)."""
    import cooler
    import pandas as pd
    from click.testing import CliRunner
    from cooler.cli import cli

    rng = ctx.rng("giant4dn", shard["sub"])
    cid = f"giant4dn:{shard['sub']}"
    if not ctx.want(cid):
        return
    total = int([6_500_000_000, 6_450_000_000, 12_900_000_000][shard["sub"] % 3])
    nch = 4 if total < 8e9 else 7
    lengths = [total // nch] * (nch - 1)
    lengths.append(total - sum(lengths))
    cs = pd.Series(lengths, index=[f"chr{k + 1}" for k in range(nch)])
    d = ctx.newdir()
    base = os.path.join(d, "base.cool")
    with ctx.case(cid, {"genome_bp": total, "chromosomes": nch, "binsize": 1000, "spec": "4DN"}) as c:
        bins = cooler.binnify(cs, 1000)
        n = len(bins)
        ii = np.sort(rng.integers(0, n - 5, size=300))
        pix = pd.DataFrame({"bin1_id": ii, "bin2_id": ii + rng.integers(0, 5, size=300), "count": rng.integers(1, 9, size=300)})
        pix = pix.groupby(["bin1_id", "bin2_id"], as_index=False)["count"].sum()
        cooler.create_cooler(base, bins, pix)
        del bins
        out = os.path.join(d, "out.mcool")
        r = CliRunner().invoke(cli, ["zoomify", base, "-o", out, "-r", "4DN"])
        c.feature("cli:spec:4DN:genome>=6.4Gbp")
        if not c.check(r.exit_code == 0, "cli-resolution-spec-rejected:4DN", f"cooler zoomify -r 4DN exit {r.exit_code}: {r.exception}"):
            return
        maxres = int(math.ceil(total / 256))
        want = sorted(set([1000, 2000] + nice_seq(5000, maxres)))
        got = sorted(int(x.rsplit("/", 1)[1]) for x in cooler.fileops.list_coolers(out))
        c.check(got == want, "zoom-levels-listing-differs",
                f"[cli -r 4DN, {total} bp] levels {got}, the documented progression 1000,2000,5000N up to ceil(L/256)={maxres} is {want}")
        tot = int(pix["count"].sum())
        for r_ in got:
            c.check(int(cooler.Cooler(f"{out}::/resolutions/{r_}").info["sum"]) == tot, "coarse-total-not-preserved",
                    f"level {r_}: total differs from the base's")
        c.nontrivial("giant4dn", total)
    for f_ in (base, os.path.join(d, "out.mcool")):
        if os.path.exists(f_):
            os.remove(f_)
