"""C02 Every cooler any operation writes is a structurally valid CSR collection."""
from __future__ import annotations

import os
import traceback

import h5py
import numpy as np
import pandas as pd

from .. import gen, h5state, probes
from . import c01

RULE = ("invariant at a hook: an exit hook on the real create() re-opens every collection any producer writes "
        "(create, unordered ingest incl. its temporary per-chunk coolers, merge, coarsen, every zoom level, scool "
        "cells, CLI load/cload) with raw h5py and validates it against schema_v3; workloads = C01's input space, "
        "random histories of 2-6 producing operations over shared files, rlencode driven across block edges at "
        "function level, and three >1e6-pixel collections whose 1e6-row block edge falls inside / on / one past a "
        "run start. Non-trivial: a collection with >= 1 pixel; distinct = digest of (uri kind, bins, pixels)")
ASSUMPTIONS = ["validation happens at producer exit only (never mid-write)",
               "docs/schema_v3.rst + the C02 statement define validity; the validator uses raw h5py + searchsorted"]
MIN_NONTRIVIAL = {"quick": 300, "thorough": 3000}
REQUIRED_PROBES = ["create_exit", "rlencode", "index_pixels", "index_bins"]
REQUIRED_FEATURES = ["op:create", "op:create-unordered", "op:merge", "op:coarsen", "op:zoomify", "op:scool",
                     "op:cli-load", "op:cli-cload-pairs", "op:cli-cload-tabix", "op:cli-cload-hiclib", "tabix:max-split:>=3", "cload:records-on-unlisted-contigs",
                     "create:ensure_sorted", "create:ensure_sorted:all-checks-off", "big:edge-inside-run", "big:edge-on-run-start",
                     "big:edge-one-past-run-start"]
SHARD_TIMEOUT = {"quick": 1800, "thorough": 7200}


def plan(tier, seed):
    if tier == "quick":
        s = [{"kind": "c01", "sub": i, "cases": 40} for i in range(5)]
        s += [{"kind": "hist", "sub": i, "cases": 5} for i in range(7)]
        s += [{"kind": "rle", "cases": 400}]
        s += [{"kind": "big", "variant": v} for v in range(3)]
        return s
    s = [{"kind": "c01", "sub": i, "cases": 300} for i in range(24)]
    s += [{"kind": "hist", "sub": i, "cases": 30} for i in range(48)]
    s += [{"kind": "rle", "cases": 4000, "sub": i} for i in range(2)]
    s += [{"kind": "big", "variant": v} for v in range(6)]
    return s


class Seen:
    """What the create() exit hook observed (deciding monitor)."""

    def __init__(self, ctx):
        self.ctx = ctx
        self.n = 0

    def __call__(self, uri, grp, problems):
        self.n += 1
        c = self.ctx.cur
        nnz = int(grp.attrs.get("nnz", 0))
        self.ctx.oracle_evals += 1
        self.ctx.features["collections-validated"] += 1
        if nnz:
            b1 = grp["pixels/bin1_id"][:]
            b2 = grp["pixels/bin2_id"][:]
            from ..core import h64
            self.ctx.distinct.add(h64("C02", b1.tobytes()[:4096], b2.tobytes()[:4096], nnz,
                                      grp["bins/end"][:].tobytes()[:2048], grp.attrs.get("storage-mode")))
        if ".multi.cool" in uri:
            self.ctx.features["collections:temp-chunk-coolers"] += 1
        if "/resolutions/" in uri:
            self.ctx.features["collections:zoom-levels"] += 1
        if "/cells/" in uri:
            self.ctx.features["collections:scool-cells"] += 1


def run(ctx, shard):
    seen = Seen(ctx)
    owned = {"create_exit", "rlencode", "index_pixels", "index_bins", "write_pixels", "get_binsize"}
    probes.activate(ctx, owned=owned)
    probes.probe_create_exit(on_collection=seen)
    probes.probe_rlencode()
    probes.probe_indexes()
    probes.probe_write_pixels()
    k = shard["kind"]
    if k == "c01":
        run_c01_inputs(ctx, shard)
    elif k == "hist":
        run_histories(ctx, shard)
    elif k == "rle":
        run_rle(ctx, shard)
    elif k == "big":
        run_big(ctx, shard)


def final_scan(c, path):
    """Walk a file with raw h5py and validate every group tagged as a cooler."""
    if not os.path.exists(path) or not h5py.is_hdf5(path):
        return 0
    n = 0
    with h5py.File(path, "r") as f:
        groups = []

        def visit(name, obj):
            if isinstance(obj, h5py.Group) and obj.attrs.get("format", None) == "HDF5::Cooler":
                groups.append("/" + name)
        if f.attrs.get("format", None) == "HDF5::Cooler":
            groups.append("/")
        f.visititems(visit)
        for g in groups:
            n += 1
            for key, msg in h5state.validate_collection(f[g]):
                c.fail(key, f"{msg} (final scan of {os.path.basename(path)}::{g})")
            c.ctx.oracle_evals += 1
    return n


# ------------------------------------------------------------------ (a) C01 inputs
def run_c01_inputs(ctx, shard):
    import cooler
    from cooler.create import ArrayLoader
    from .. import model

    rng0 = ctx.rng("plan", shard["sub"])
    for k in range(shard["cases"]):
        cid = f"c01:{shard['sub']}:{k}"
        seedk = int(rng0.integers(2**31))
        if not ctx.want(cid):
            continue
        rng = ctx.rng("case", shard["sub"], k, seedk)
        K = c01.make_case(rng, shard["sub"] * 1000 + k)
        bt, n, symm, P = K["bt"], K["n"], K["symm"], K["P"]
        path = ctx.path()
        uri = path + ("::/x/y" if K["nested"] else "")
        with ctx.case(cid, {k2: K[k2] for k2 in ("fam", "bt", "symm", "form", "pat", "cdt", "h5opts")}) as c:
            c.feature("op:create", f"family:{K['fam']}")
            bins = gen.bt_frame(bt)
            df = gen.pixels_frame(P, K["extra"], count_dtype=np.dtype(K["cdt"]) if K["cdt"] else np.int64)
            kw = dict(columns=(["count"] + list(K["extra"])) if K["extra"] else None,
                      dtypes={"count": np.dtype(K["cdt"])} if K["cdt"] else None,
                      symmetric_upper=symm, h5opts=K["h5opts"], mode="w")
            if not symm:
                kw["triucheck"] = False
            form = K["form"]
            if form == "arrayloader":
                arr = model.dense(P, n, True, dtype=np.dtype(K["cdt"]) if K["cdt"] else np.int64)
                pixels = ArrayLoader(bins, arr, int(rng.integers(1, n + 2)))
                kw["ordered"] = True
            elif form.startswith("chunks"):
                chs = gen.chunk_frames(df, gen.random_cuts(rng, len(df), 6))
                es = int(rng.integers(4))
                if es in (1, 2) and len(df):
                    kw["ensure_sorted"] = True
                    if rng.random() < 0.4:
                        kw.update(boundscheck=False, dupcheck=False, triucheck=False)
                        c.feature("create:ensure_sorted:all-checks-off")
                    if es == 1:
                        chs = [ch.iloc[rng.permutation(len(ch))].reset_index(drop=True) for ch in chs]
                    else:
                        chs = [ch.assign(_k=rng.random(len(ch))).sort_values(["bin1_id", "_k"]).drop(columns="_k")
                               .reset_index(drop=True) for ch in chs]
                    c.feature("create:ensure_sorted")
                pixels = iter(chs)
                kw["ordered"] = True
            elif form == "dict":
                perm = rng.permutation(len(df))
                pixels = {col: df[col].to_numpy()[perm] for col in df.columns}
            elif form == "df_shuffled":
                pixels = df.iloc[rng.permutation(len(df))]
            else:
                pixels = df
            cooler.create_cooler(uri, bins, pixels, **kw)
            final_scan(c, path)
            ctx.sample({"op": "create", "family": K["fam"], "form": form, "nbins": n, "nnz": len(P)}, limit=2)
            if len(P) and k % 5 == 0:
                # values at the edge of the stored integer type, given in an input dtype of the same width but other
                # signedness (or wider): the creation is refused, or what it stores agrees with the recorded total
                sdt, idt, val = [("int32", "uint32", 2**31), ("int32", "uint32", 2**32 - 1), ("uint32", "int32", -1),
                                 ("int16", "uint16", 2**15), ("uint8", "int8", -3), ("int32", "int64", 2**31),
                                 ("int32", "uint32", 2**31 - 1)][int(rng.integers(7))]
                keys = sorted(P)
                vals = np.ones(len(keys), dtype=idt)
                vals[int(rng.integers(len(keys)))] = val
                df2 = pd.DataFrame({"bin1_id": [a for a, _ in keys], "bin2_id": [b for _, b in keys], "count": vals})
                p2 = ctx.path()
                c.feature("create:value-at-integer-edge", f"create:value-at-integer-edge:{idt}->{sdt}")
                try:
                    cooler.create_cooler(p2, bins, df2 if k % 2 else iter([df2]), dtypes={"count": np.dtype(sdt)},
                                         symmetric_upper=symm, ordered=True, **({} if symm else {"triucheck": False}))
                    c.feature("create:value-at-integer-edge:stored")
                    final_scan(c, p2)
                    with h5py.File(p2, "r") as f2:
                        st = f2["pixels/count"][:].astype(object).tolist()
                    c.check(st == [int(v) for v in vals.tolist()], "edge-value-stored-differently",
                            f"count values given as {idt} (one of them {val}) were stored in {sdt} as other values without error",
                            lambda: {"stored": st[:10], "given": vals.tolist()[:10]})
                except ValueError:
                    c.feature("create:value-at-integer-edge:refused")
                if os.path.exists(p2):
                    os.remove(p2)
        if os.path.exists(path):
            os.remove(path)


# ------------------------------------------------------------------ (b) histories
def write_text(path, rows):
    with open(path, "w") as f:
        for r in rows:
            f.write("\t".join(str(x) for x in r) + "\n")


def run_histories(ctx, shard):
    import cooler
    from click.testing import CliRunner
    from cooler.cli import cli

    runner = CliRunner()
    rng0 = ctx.rng("hist-plan", shard["sub"])
    for k in range(shard["cases"]):
        cid = f"hist:{shard['sub']}:{k}"
        seedk = int(rng0.integers(2**31))
        if not ctx.want(cid):
            continue
        rng = ctx.rng("hist", shard["sub"], k, seedk)
        d = ctx.newdir()
        fam = gen.BT_FAMILIES[(shard["sub"] + k) % len(gen.BT_FAMILIES)]
        bt = gen.gen_bt(rng, fam, max_chroms=4, max_bins=24, widths=(1, 2, 3, 5, 10))
        n = gen.bt_nbins(bt)
        bins = gen.bt_frame(bt)
        symm = bool(rng.random() < 0.7)
        files = [os.path.join(d, "A.cool"), os.path.join(d, "B.cool")]
        pool = []   # uris of coolers over `bt` with mode `symm`
        hist = []
        with ctx.case(cid, {"bt": bt, "symm": symm}) as c:
            c.desc["history"] = hist
            nops = int(rng.integers(3, 8))
            ops = ["create", "create_unordered"] + [
                ["create", "create_unordered", "merge", "coarsen", "zoomify", "scool", "cli_load", "cli_cload",
                 "cli_cload_tabix", "cli_cload_hiclib"][int(rng.integers(10))] for _ in range(nops)]
            for oi, op in enumerate(ops):
                try:
                    step(ctx, c, rng, op, oi, d, files, pool, hist, bt, bins, n, symm, runner, cli)
                except Exception as e:  # an operation failing is not a schema violation: advisory
                    from ..core import cooler_frames
                    fr = cooler_frames(e.__traceback__)
                    c.fail(f"history-op-raised:{op}:{type(e).__name__}@{fr[-1] if fr else 'harness'}",
                           f"{op} raised {type(e).__name__}: {str(e)[:200]}",
                           {"history": hist, "tb": traceback.format_exc()[-1500:]}, advisory=True, prop="C02")
                    hist.append({"op": op, "raised": type(e).__name__})
            for root, _, names in os.walk(d):
                for nm in names:
                    if nm.endswith((".cool", ".mcool", ".scool")):
                        final_scan(c, os.path.join(root, nm))
            ctx.sample({"history": hist, "bins_family": fam}, limit=3)


def step(ctx, c, rng, op, oi, d, files, pool, hist, bt, bins, n, symm, runner, cli):
    import cooler

    def newuri():
        f = files[int(rng.integers(2))]
        g = ["/", "/a", "/b", "/g/x", "/g/y"][int(rng.integers(5))]
        if any(u.startswith(f + "::") for u in pool) and g == "/":
            g = f"/n{oi}"
        # never nest under an existing collection, never overwrite pooled inputs
        for u in pool:
            uf, ug = u.split("::")
            if uf == f and (ug == g or ug.startswith(g.rstrip("/") + "/") or g.startswith(ug.rstrip("/") + "/")):
                g = f"/n{oi}"
        return f + "::" + g

    pat = gen.PATTERNS[int(rng.integers(len(gen.PATTERNS)))]
    if op in ("create", "create_unordered"):
        P = gen.gen_pixels(rng, n, symm, pat)
        df = gen.pixels_frame(P)
        uri = newuri()
        kw = dict(symmetric_upper=symm, mode="a")
        if not symm:
            kw["triucheck"] = False
        if op == "create":
            cooler.create_cooler(uri, bins, df, ordered=True, **kw)
            c.feature("op:create")
        else:
            if len(df) == 0:
                df = gen.pixels_frame({(0, 0): 1})
            sh = df.iloc[rng.permutation(len(df))].reset_index(drop=True)
            chunks = [ch.sort_values(["bin1_id", "bin2_id"]) for ch in
                      gen.chunk_frames(sh, gen.random_cuts(rng, len(sh), 5, allow_empty=False))]
            # make chunks overlap in pixels: repeat a few records in another chunk
            if len(chunks) > 1 and len(chunks[0]):
                chunks[-1] = pd.concat([chunks[-1], chunks[0].iloc[:2]]).drop_duplicates(
                    ["bin1_id", "bin2_id"]).sort_values(["bin1_id", "bin2_id"])
            mb = int([2, 5, 50, 10**7][int(rng.integers(4))])
            mm = int([2, 3, 200][int(rng.integers(3))])
            if len(chunks) in (2, 3) and mm < len(chunks):
                mm = 200   # F11 (C06) precondition: not this property's concern
            cooler.create_cooler(uri, bins, iter(chunks), ordered=False, mergebuf=mb, max_merge=mm, **kw)
            c.feature("op:create-unordered")
        pool.append(uri)
        hist.append({"op": op, "uri": rel(uri), "nnz": len(df), "pattern": pat})
    elif op == "merge":
        if not pool:
            return
        k = int(rng.integers(1, min(3, len(pool)) + 1))
        ins = [pool[int(i)] for i in rng.permutation(len(pool))[:k]]
        # inputs stay open for reading during the merge: the output goes to another file
        uri = os.path.join(d, f"merged{oi}.cool") + "::" + ["/", "/m"][int(rng.integers(2))]
        mb = int([1, 3, 20, 10**7][int(rng.integers(4))])
        cooler.merge_coolers(uri, ins, mergebuf=mb, mode="a")
        c.feature("op:merge")
        pool.append(uri)
        hist.append({"op": "merge", "inputs": [rel(u) for u in ins], "uri": rel(uri), "mergebuf": mb})
    elif op == "coarsen":
        if not pool:
            return
        src = pool[int(rng.integers(len(pool)))]
        k = int([2, 3, 5, 50][int(rng.integers(4))])
        cs = int([1, 3, 20, 10**7][int(rng.integers(4))])
        out = os.path.join(d, f"coarse{oi}.cool") + "::" + ["/", "/c"][int(rng.integers(2))]
        npr = 2 if rng.random() < 0.35 else 1
        cooler.coarsen_cooler(src, out, k, chunksize=cs, nproc=npr)
        c.feature("op:coarsen", "coarsen:pool" if npr > 1 else "coarsen:seq")
        hist.append({"op": "coarsen", "src": rel(src), "factor": k, "chunksize": cs, "nproc": npr})
    elif op == "zoomify":
        if not pool:
            return
        src = pool[int(rng.integers(len(pool)))]
        b = cooler.Cooler(src).binsize or 1
        res = [[b * 2, b * 4], [b, b * 3, b * 6], [b * 2, b * 6, b * 12, b * 4]][int(rng.integers(3))]
        out = os.path.join(d, f"zoom{oi}.mcool")
        cooler.zoomify_cooler(src, out, res, chunksize=int([2, 30, 10**7][int(rng.integers(3))]))
        c.feature("op:zoomify")
        hist.append({"op": "zoomify", "src": rel(src), "resolutions": res})
    elif op == "scool":
        cells = {}
        for ci in range(int(rng.integers(1, 4))):
            cells[f"cell{ci}"] = gen.pixels_frame(gen.gen_pixels(rng, n, symm, None))
        out = os.path.join(d, f"sc{oi}.scool")
        kw = dict(symmetric_upper=symm)
        if not symm:
            kw["triucheck"] = False
        cooler.create_scool(out, bins, cells, ordered=True, **kw)
        c.feature("op:scool")
        hist.append({"op": "scool", "cells": len(cells)})
    elif op in ("cli_load", "cli_cload", "cli_cload_tabix", "cli_cload_hiclib"):
        if any(" " in nm for nm, _ in bt):
            return
        bed = os.path.join(d, "bins.bed")
        bins.to_csv(bed, sep="\t", header=False, index=False)
        out = os.path.join(d, f"cli{oi}.cool")
        if op == "cli_load":
            P = gen.gen_pixels(rng, n, symm, pat) or {(0, 0): 1}
            rows = [(i, j, v) for (i, j), v in P.items()]
            rows = [rows[i] for i in rng.permutation(len(rows))]
            txt = os.path.join(d, f"in{oi}.coo")
            write_text(txt, rows)
            args = ["load", "-f", "coo", bed, txt, out, "--chunksize", str(int(rng.integers(1, 8)))]
            if not symm:
                args.append("-N")
            r = runner.invoke(cli, args)
            c.feature("op:cli-load")
        elif op == "cli_cload_hiclib":
            # hiclib-style HDF5 contact list: chrms1/cuts1/chrms2/cuts2, sorted on the first side, upper triangle
            import h5py
            bl = gen.bt_bins_list(bt)
            rank = {nm: i for i, (nm, _) in enumerate(bt)}
            recs = []
            for _ in range(int(rng.integers(20, 300))):
                a, b_ = bl[int(rng.integers(len(bl)))], bl[int(rng.integers(len(bl)))]
                r = (rank[a[0]], int(rng.integers(a[1], a[2])), rank[b_[0]], int(rng.integers(b_[1], b_[2])))
                if (r[0], r[1]) > (r[2], r[3]):
                    r = (r[2], r[3], r[0], r[1])
                recs.append(r)
            recs.sort()
            h5p = os.path.join(d, f"in{oi}.hiclib.h5")
            with h5py.File(h5p, "w") as f:
                for k_, nm_ in enumerate(("chrms1", "cuts1", "chrms2", "cuts2")):
                    f.create_dataset(nm_, data=np.array([r[k_] for r in recs], dtype=np.int64))
            args = ["cload", "hiclib", "--chunksize", str(int([1, 2, 3, 5, 11, 50, 10**6][int(rng.integers(7))])), bed, h5p, out]
            r = runner.invoke(cli, args)
            c.feature("op:cli-cload-hiclib")
        elif op == "cli_cload_tabix":
            import pysam
            bl = gen.bt_bins_list(bt)
            rank = {nm: i for i, (nm, _) in enumerate(bt)}
            recs = []
            for _ in range(int(rng.integers(5, 80))):
                a, b_ = bl[int(rng.integers(len(bl)))], bl[int(rng.integers(len(bl)))]
                r = (a[0], int(rng.integers(a[1], a[2])) + 1, b_[0], int(rng.integers(b_[1], b_[2])) + 1)
                if (rank[r[0]], r[1]) > (rank[r[2]], r[3]):
                    r = (r[2], r[3], r[0], r[1])
                recs.append(r)
            recs.sort(key=lambda r: (rank[r[0]], r[1]))
            txt = os.path.join(d, f"in{oi}.sorted.pairs")
            write_text(txt, recs)
            gz = pysam.tabix_index(txt, force=True, seq_col=0, start_col=1, end_col=1)
            nsplit = int([1, 2, 3, 4, 6, 9][int(rng.integers(6))])
            args = ["cload", "tabix", "-c2", "3", "-p2", "4", "-p", str(int(rng.integers(1, 3))), "-s", str(nsplit), bed, gz, out]
            r = runner.invoke(cli, args)
            c.feature("op:cli-cload-tabix", f"tabix:max-split:{'>=3' if nsplit >= 3 else '<=2'}")
        else:
            bl = gen.bt_bins_list(bt)
            recs = []
            for _ in range(int(rng.integers(1, 40))):
                a, b_ = bl[int(rng.integers(len(bl)))], bl[int(rng.integers(len(bl)))]
                rec = [a[0], int(rng.integers(a[1], a[2])) + 1, b_[0], int(rng.integers(b_[1], b_[2])) + 1]
                u = rng.random()
                if u < 0.1:
                    rec[0] = "chrUnlisted"          # contigs that are not in the bin table: such records are dropped
                elif u < 0.2:
                    rec[2] = "chrUnlisted"
                elif u < 0.25:
                    rec[0] = rec[2] = "chrUnlisted"
                recs.append(tuple(rec))
            if any("chrUnlisted" in r for r in recs):
                c.feature("cload:records-on-unlisted-contigs")
            txt = os.path.join(d, f"in{oi}.pairs")
            write_text(txt, recs)
            args = ["cload", "pairs", "-c1", "1", "-p1", "2", "-c2", "3", "-p2", "4", bed, txt, out,
                    "--chunksize", str(int(rng.integers(1, 12)))]
            if not symm:
                args.append("-N")
            r = runner.invoke(cli, args)
            c.feature("op:cli-cload-pairs")
        if r.exit_code != 0:
            raise (r.exception or RuntimeError(r.output[-300:]))
        hist.append({"op": op, "args": [a if not a.startswith(d) else os.path.basename(a) for a in args]})


def rel(uri):
    f, g = uri.split("::")
    return os.path.basename(f) + "::" + g


# ------------------------------------------------------------------ (d) rlencode at function level
def ref_rle(a):
    starts, lengths, values = [], [], []
    for i, x in enumerate(a):
        if i == 0 or x != a[i - 1]:
            starts.append(i)
            values.append(x)
            lengths.append(1)
        else:
            lengths[-1] += 1
    return starts, lengths, values


def run_rle(ctx, shard):
    from cooler.util import rlencode

    rng = ctx.rng("rle", shard.get("sub", 0))
    for k in range(shard["cases"]):
        cid = f"rle:{shard.get('sub', 0)}:{k}"
        nruns = int(rng.integers(0, 9))
        lens = rng.integers(1, 7, size=nruns)
        vals = np.cumsum(rng.integers(1, 4, size=nruns)) if nruns else np.array([], dtype=int)
        a = np.repeat(vals, lens).astype([np.int64, np.int32, np.uint16][k % 3])
        if not ctx.want(cid):
            continue
        with ctx.case(cid, {"array": a}) as c:
            rs, rl, rv = ref_rle(a.tolist())
            for bs in [None] + list(range(1, len(a) + 2)):
                s, l, v = rlencode(a, bs)
                ok = s.tolist() == rs and l.tolist() == rl and v.tolist() == rv
                edge = "on-run-start" if (bs and any(x % bs == 0 for x in rs[1:])) else "inside-run"
                c.feature(f"rle:block-edge-{edge}")
                if not c.check(ok, "rlencode-wrong", f"rlencode(array, chunksize={bs}) is not the run decomposition",
                               {"array": a, "block": bs, "starts": s, "want_starts": rs}):
                    break
            if nruns > 1:
                c.nontrivial("rle", a.tobytes())
            if k < 2:
                ctx.sample({"rlencode_array": a.tolist()})


# ------------------------------------------------------------------ (d) > 1e6 pixels end to end
def run_big(ctx, shard):
    import cooler

    v = shard["variant"] % 3
    first = [500, 1000, 999][v]
    label = ["edge-inside-run", "edge-on-run-start", "edge-one-past-run-start"][v]
    if shard["variant"] >= 3:      # thorough extras: second block edge too (2e6)
        rows = 2100
    else:
        rows = 1100
    cid = f"big:{shard['variant']}"
    if not ctx.want(cid):
        return
    lens = np.full(rows, 1000, dtype=np.int64)
    lens[0] = first
    nbins = rows + 1000
    total = int(lens.sum())
    offs = np.r_[0, np.cumsum(lens)]
    with ctx.case(cid, {"rows": rows, "first_row_len": first, "total_pixels": total, "label": label}) as c:
        c.feature(f"big:{label}")
        starts_near = [int(x) for x in offs if abs(int(x) - 1_000_000) <= 1]
        bin1 = np.repeat(np.arange(rows, dtype=np.int64), lens)
        bin2 = bin1 + (np.arange(total, dtype=np.int64) - np.repeat(offs[:-1], lens))
        cnt = np.ones(total, dtype=np.int32)
        bt = [["chrA", list(range(0, (nbins // 2) * 10 + 1, 10))], ["chrB", list(range(0, (nbins - nbins // 2) * 10 + 1, 10))]]
        bins = gen.bt_frame(bt)
        assert len(bins) == nbins

        def chunks():
            step_ = 300_000
            for a in range(0, total, step_):
                yield {"bin1_id": bin1[a:a + step_], "bin2_id": bin2[a:a + step_], "count": cnt[a:a + step_]}
        path = ctx.path()
        cooler.create_cooler(path, bins, chunks(), ordered=True)
        n = final_scan(c, path)
        c.check(n == 1, "big:not-recognised", "the >1e6-pixel collection was not found by the raw scan")
        with h5py.File(path, "r") as f:
            bo = f["indexes/bin1_offset"][:]
        c.check(np.array_equal(bo[:rows + 1], offs) and np.all(bo[rows:] == total), "indexes:bin1_offset-wrong",
                f"bin1_offset differs from the constructed row offsets (run starts near 1e6: {starts_near})")
        c.nontrivial("big", shard["variant"])
        ctx.sample({"big": label, "pixels": total, "run_starts_within_1_of_1e6": starts_near})
        os.remove(path)
