"""C20 Generated bin tables tile the genome; a reported bin size is always true."""
from __future__ import annotations

import itertools
import os

import numpy as np
import pandas as pd

from .. import gen, model, probes
from ..build import make_cooler

RULE = ("(a) chromosome-size tables x widths through binnify / makebins / parse_bins, oracle ref_binnify; "
        "(b) get_binsize/get_chromsizes over ALL valid bin tables within the tier bound (enumerated as "
        "per-chromosome width compositions) plus generated tables of every family incl. the 'last bin "
        "longer' trap family; (c) product surface Cooler.binsize / info on created coolers. Non-trivial: "
        "the table has >= 2 bins in some chromosome or a last bin that differs from the others; distinct "
        "= distinct (table, width)")
ASSUMPTIONS = ["valid bin tables only (contiguous from 0, per schema_v3)",
               "conforms_fixed is the property's own definition [k*b, min((k+1)b, length))"]
EXHAUSTIVE = {"quick": "all bin tables with <=2 chromosomes, <=4 bins each, widths <=4 (115 940 tables)",
              "thorough": "all tables with <=2 chrom x <=5 bins x widths<=4 and <=3 chrom x <=3 bins x widths<=4"}
MIN_NONTRIVIAL = {"quick": 2000, "thorough": 20000}
REQUIRED_PROBES = ["get_binsize"]


def compositions(max_bins, max_w):
    out = []
    for nb in range(1, max_bins + 1):
        for ws in itertools.product(range(1, max_w + 1), repeat=nb):
            out.append([0] + list(itertools.accumulate(ws)))
    return out


def plan(tier, seed):
    shards = []
    if tier == "quick":
        nsh = 14
        for i in range(nsh):
            shards.append({"kind": "exh", "chroms": 2, "bins": 4, "w": 4, "part": i, "of": nsh})
        shards.append({"kind": "exh", "chroms": 1, "bins": 5, "w": 5, "part": 0, "of": 1})
        shards.append({"kind": "binnify", "n": 1500})
        shards.append({"kind": "families", "n": 600})
        shards.append({"kind": "surface", "n": 40})
        shards.append({"kind": "cli", "n": 30})
    else:
        for i in range(24):
            shards.append({"kind": "exh", "chroms": 2, "bins": 5, "w": 4, "part": i, "of": 24})
        for i in range(12):
            shards.append({"kind": "exh", "chroms": 3, "bins": 3, "w": 4, "part": i, "of": 12})
        shards.append({"kind": "exh", "chroms": 1, "bins": 6, "w": 5, "part": 0, "of": 1})
        for i in range(4):
            shards.append({"kind": "binnify", "n": 10000, "sub": i})
        for i in range(4):
            shards.append({"kind": "families", "n": 5000, "sub": i})
        shards.append({"kind": "surface", "n": 400})
        shards.append({"kind": "cli", "n": 200})
    return shards


def run(ctx, shard):
    probes.activate(ctx, owned={"get_binsize"})
    probes.probe_get_binsize()
    k = shard["kind"]
    if k == "exh":
        run_exh(ctx, shard)
    elif k == "binnify":
        run_binnify(ctx, shard)
    elif k == "families":
        run_families(ctx, shard)
    elif k == "surface":
        run_surface(ctx, shard)
    elif k == "cli":
        run_cli(ctx, shard)


def binsize_key(bt):
    """mechanism key for an untrue bin size, from the table's structure."""
    if gen.bt_is_trap(bt):
        # which structural reason
        for _, e in bt:
            if len(e) > 2 and (e[-1] - e[-2]) > (e[1] - e[0]):
                return "binsize-untrue:last-bin-longer"
        return "binsize-untrue:one-bin-chromosome-longer"
    return "binsize-untrue:other"


def check_table(c, util, bt, names, relabel=None):
    bins = gen.bt_frame(bt)
    b = util.get_binsize(bins)
    if relabel is not None:
        # the same table under other row labels (per-chromosome labels as after pd.concat, reversed, offset):
        # bin-size inference and chromosome lengths are functions of the rows, not of their labels
        per = [i for _, e in bt for i in range(len(e) - 1)]
        for lab in (per, list(range(len(bins)))[::-1], [i + 7 for i in range(len(bins))])[relabel % 3:relabel % 3 + 1]:
            b2 = util.get_binsize(bins.set_axis(lab, axis=0))
            if not ((b2 is None and b is None) or (b2 is not None and b is not None and int(b2) == int(b))):
                c.fail("binsize-depends-on-row-labels", f"get_binsize = {b} but {b2} for the same rows labelled {lab[:12]}",
                       {"bt": bt})
            cs2 = util.get_chromsizes(bins.set_axis(lab, axis=0))
            if [int(x) for x in cs2.values] != [e[-1] for _, e in bt]:
                c.fail("chromsizes-depend-on-row-labels", f"get_chromsizes differs for the same rows labelled {lab[:12]}", {"bt": bt})
    if b is not None:
        ok = model.conforms_fixed(bt, int(b))
        if not ok:
            c.fail(binsize_key(bt), f"get_binsize = {b} on a table with a non-conforming bin", {"bt": bt})
    cs = util.get_chromsizes(bins)
    want = [(n, e[-1]) for n, e in bt]
    got = list(zip(list(cs.index), [int(x) for x in cs.values]))
    if got != want:
        c.fail("chromsizes-not-last-bin-ends", f"get_chromsizes = {got}, last-bin ends = {want}", {"bt": bt})
    return b


def run_exh(ctx, shard):
    from cooler import util

    comps = compositions(shard["bins"], shard["w"])
    names = ["a", "b", "c"]
    total = len(comps) ** shard["chroms"]
    lo = total * shard["part"] // shard["of"]
    hi = total * (shard["part"] + 1) // shard["of"]
    cid = f"exh:{shard['chroms']}:{shard['bins']}:{shard['w']}:{shard['part']}"
    if not ctx.want(cid):
        return
    with ctx.case(cid, dict(shard)) as c:
        n = 0
        reported = 0
        for idx in range(lo, hi):
            x = idx
            bt = []
            for ci in range(shard["chroms"]):
                x, r = divmod(x, len(comps))
                bt.append([names[ci], comps[r]])
            b = check_table(c, util, bt, names, relabel=idx)
            n += 1
            if b is not None:
                reported += 1
            if len(c.ctx.failures) > 40:
                break
        ctx.evaluations += n - 1
        ctx.oracle_evals += 2 * n
        ctx.bulk_distinct += n
        ctx.extra["tables_enumerated"] = ctx.extra.get("tables_enumerated", 0) + n
        ctx.extra["tables_reported_fixed"] = ctx.extra.get("tables_reported_fixed", 0) + reported
        if shard["part"] == 0:
            ctx.sample({"bin_table": bt, "get_binsize": None if b is None else int(b)})


def run_binnify(ctx, shard):
    from cooler import util

    rng = ctx.rng("binnify", shard.get("sub", 0))
    for k in range(shard["n"]):
        cid = f"binnify:{shard.get('sub', 0)}:{k}"
        nch = int(rng.integers(1, 7))
        names = gen.gen_names(rng, nch)
        b = int([1, 2, 3, 5, 7, 10, 100, 1000, 4096, 10**4, 10**5, 10**6, 2 * 10**6, 5 * 10**6, 10**7,
                 10**6, 25 * 10**5][int(rng.integers(17))])
        lengths = []
        big = False
        for _ in range(nch):
            r = rng.random()
            if b >= 10**6 and rng.random() < 0.1:
                # sequences at and beyond the 32-bit coordinate boundary (lungfish / axolotl scale assemblies)
                lengths.append(int([2**31 - 1, 2**31, 2**31 + 1, int(rng.integers(2**31 - 2 * b, 2**32)),
                                    int(rng.integers(2**32, 2**33))][int(rng.integers(5))]))
                big = True
            elif r < 0.08:
                lengths.append(int(rng.integers(1, 12)))              # contig of a few bp, whatever the width
            elif r < 0.2:
                lengths.append(int(rng.integers(1, b + 1)))          # <= b
            elif r < 0.4:
                lengths.append(b * int(rng.integers(1, 12)))          # exact multiple
            elif r < 0.5:
                lengths.append(1)
            elif r < 0.6:
                lengths.append(b * int(rng.integers(1, 12)) + int([1, 1, 2, 5, 10][int(rng.integers(5))]))  # just over
            elif r < 0.7:
                lengths.append(max(1, b * int(rng.integers(1, 12)) - 1))  # one under
            else:
                lengths.append(int(rng.integers(1, 40 * b + 1)))
        zero_at = None
        if nch >= 2 and rng.random() < 0.12:
            zero_at = int(rng.integers(1, nch))          # an empty sequence that is not the first entry
            lengths[zero_at] = 0
        if not ctx.want(cid):
            continue
        with ctx.case(cid, {"chromsizes": list(zip(names, lengths)), "binsize": b}) as c:
            if zero_at is not None:
                c.feature("binnify:zero-length-sequence")
            cs = pd.Series(lengths, index=names)
            if big:
                c.feature("binnify:length>=2^31")
            out = util.binnify(cs, b)
            want = model.ref_binnify(list(zip(names, lengths)), b)
            got = list(zip(out["chrom"].astype(str).tolist(), out["start"].tolist(), out["end"].tolist()))
            c.check(got == want, "binnify-not-tiling", f"binnify({list(zip(names, lengths))}, {b}) differs from "
                    f"[k*b, min((k+1)b, len))", {"got": got[:30], "want": want[:30]})
            c.check(list(out.columns[:3]) == ["chrom", "start", "end"], "binnify-columns", "column names")
            iscat = isinstance(out["chrom"].dtype, pd.CategoricalDtype)
            c.check(iscat and list(out["chrom"].cat.categories) == names, "binnify-chrom-order",
                    "chrom column is not categorical in the given chromosome order",
                    {"categories": list(out["chrom"].cat.categories) if iscat else None})
            # inference on the generated table must be truthful and give back the lengths
            bs = util.get_binsize(out)
            if bs is not None:
                bt = [[n, gen.fixed_edges(L, b)] for n, L in zip(names, lengths)]
                c.check(model.conforms_fixed(bt, int(bs)), "binsize-untrue:on-binnify-output",
                        f"get_binsize(binnify(..., {b})) = {bs}")
            cs2 = util.get_chromsizes(out)
            binned = [(n_, L_) for n_, L_ in zip(names, lengths) if L_ > 0]
            c.check(list(cs2.index) == [x[0] for x in binned] and [int(x) for x in cs2.values] == [x[1] for x in binned],
                    "chromsizes-not-last-bin-ends", "get_chromsizes(binnify(...)) != input sizes (of the sequences that have bins)")
            c.nontrivial("binnify", tuple(lengths), b)
            if k < 2:
                ctx.sample({"chromsizes": list(zip(names, lengths)), "binsize": b, "nbins": len(out)})


def run_families(ctx, shard):
    from cooler import util

    rng = ctx.rng("families", shard.get("sub", 0))
    for k in range(shard["n"]):
        fam = gen.BT_FAMILIES[k % len(gen.BT_FAMILIES)]
        bt = gen.gen_bt(rng, fam, max_chroms=6, max_bins=40)
        cid = f"fam:{shard.get('sub', 0)}:{k}"
        if not ctx.want(cid):
            continue
        with ctx.case(cid, {"family": fam, "bt": bt}) as c:
            c.feature(f"family:{fam}")
            b = check_table(c, util, bt, None, relabel=k)
            fw = gen.bt_fixed_width(bt)
            if b is not None:
                c.feature("reported-fixed")
            # categorical chrom column must give the same answer
            b2 = util.get_binsize(gen.bt_frame(bt, categorical=True))
            c.check((b2 is None) == (b is None) and (b is None or int(b) == int(b2)),
                    "binsize-depends-on-chrom-dtype", f"object dtype -> {b}, categorical -> {b2}")
            c.nontrivial("fam", repr(bt))
            if k < 7:
                ctx.sample({"family": fam, "bin_table": bt, "get_binsize": None if b is None else int(b),
                            "true_fixed_width": fw})


def run_surface(ctx, shard):
    import cooler

    rng = ctx.rng("surface")
    for k in range(shard["n"]):
        fam = gen.BT_FAMILIES[k % len(gen.BT_FAMILIES)]
        bt = gen.gen_bt(rng, fam, max_chroms=4, max_bins=20)
        cid = f"surface:{k}"
        if not ctx.want(cid):
            continue
        with ctx.case(cid, {"family": fam, "bt": bt}) as c:
            c.feature(f"surface:{fam}")
            n = gen.bt_nbins(bt)
            P = gen.gen_pixels(rng, n, True, "sparse30")
            path = ctx.path()
            make_cooler(path, bt, P)
            clr = cooler.Cooler(path)
            b = clr.binsize
            info = clr.info
            if b is not None:
                ok = model.conforms_fixed(bt, int(b))
                if not ok:
                    c.fail(binsize_key(bt).replace("binsize-untrue", "cooler-binsize-untrue"),
                           f"Cooler.binsize = {b} on a table with a non-conforming bin", {"bt": bt})
                c.check(info["bin-type"] == "fixed" and info["bin-size"] == b, "info-bin-type-inconsistent",
                        f"binsize={b} but info bin-type={info['bin-type']} bin-size={info['bin-size']}")
            else:
                c.check(info["bin-type"] == "variable", "info-bin-type-inconsistent",
                        f"binsize None but bin-type={info['bin-type']}")
            cs = clr.chromsizes
            c.check(list(cs.index) == [n_ for n_, _ in bt] and [int(x) for x in cs.values] == [e[-1] for _, e in bt],
                    "cooler-chromsizes-not-last-bin-ends", "Cooler.chromsizes != ends of last bins")
            c.nontrivial("surface", repr(bt))
            os.remove(path)


def run_cli(ctx, shard):
    from click.testing import CliRunner
    from cooler.cli import cli
    from cooler.cli._util import parse_bins

    rng = ctx.rng("cli")
    runner = CliRunner()
    shared = ctx.newdir()        # history: the same path is rewritten with another table and read again in this process
    for k in range(shard["n"]):
        cid = f"cli:{k}"
        nch = int(rng.integers(1, 5))
        names = gen.gen_names(rng, nch)
        if k % 3 == 0 and "chr 1" not in names:
            names[0] = "chr 1"            # sequence names may contain blanks: the text tables are TAB-delimited
        elif k % 3 == 1:
            names[0] = ["chromosome_1", "chrom01", "chromX"][k % 9 // 3]       # a first line that resembles a column header
        b = int([1, 3, 10, 1000, 10**6, 5 * 10**6][int(rng.integers(6))])
        lengths = [int(rng.integers(1, 15 * b + 1)) if rng.random() < 0.6 else
                   b * int(rng.integers(1, 5)) + int([0, 1, 2, 7][int(rng.integers(4))]) for _ in names]
        if not ctx.want(cid):
            continue
        with ctx.case(cid, {"chromsizes": list(zip(names, lengths)), "binsize": b}) as c:
            if any(" " in n_ for n_ in names):
                c.feature("cli:names-with-blanks")
            d = shared if k % 2 else ctx.newdir()
            if k % 2:
                c.feature("cli:chromsizes-path-rewritten-and-read-again")
            cspath = os.path.join(d, "x.chrom.sizes")
            with open(cspath, "w") as f:
                for n_, L in zip(names, lengths):
                    f.write(f"{n_}\t{L}\n")
            want = model.ref_binnify(list(zip(names, lengths)), b)
            res = runner.invoke(cli, ["makebins", cspath, str(b)])
            c.check(res.exit_code == 0, "makebins-failed", f"cooler makebins exit {res.exit_code}: {res.output[-300:]}")
            if res.exit_code == 0:
                rows = [ln.split("\t") for ln in res.output.strip("\n").split("\n") if ln]
                got = [(r[0], int(r[1]), int(r[2])) for r in rows]
                c.check(got == want, "makebins-not-tiling", "cooler makebins output != [k*b, min((k+1)b, len))",
                        {"got": got[:20], "want": want[:20]})
                # BED form of parse_bins reads the same table back
                bed = os.path.join(d, "bins.bed")
                with open(bed, "w") as f:
                    f.write(res.output)
                cs2, bins2 = parse_bins(bed)
                got2 = list(zip(bins2["chrom"].astype(str), bins2["start"].tolist(), bins2["end"].tolist()))
                c.check(got2 == want, "parse_bins-bed-differs", "parse_bins(BED) != table written")
                c.check(list(cs2.index) == names and [int(x) for x in cs2.values] == lengths,
                        "parse_bins-bed-chromsizes", "parse_bins(BED) chromsizes != last-bin ends")
            cs3, bins3 = parse_bins(f"{cspath}:{b}")
            got3 = list(zip(bins3["chrom"].astype(str), bins3["start"].tolist(), bins3["end"].tolist()))
            c.check(got3 == want, "parse_bins-sizes-differs", "parse_bins('sizes:b') != ref_binnify")
            c.check(list(cs3.index) == names and [int(x) for x in cs3.values] == lengths,
                    "parse_bins-chromsizes", "parse_bins('sizes:b') chromsizes != file")
            c.nontrivial("cli", tuple(names), tuple(lengths), b)
            if k < 2:
                ctx.sample({"cli": f"cooler makebins <{list(zip(names, lengths))}> {b}", "rows": len(want)})
