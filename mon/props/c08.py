"""C08 Coarsening by k is exact block aggregation within each chromosome."""
from __future__ import annotations

import os

import h5py
import numpy as np

from .. import gen, h5state, model, probes, sched
from ..build import make_cooler, read_pixels_raw

RULE = ("generated base coolers (all bin-table families, both storage modes, 1-2 value columns) coarsened by the real "
        "coarsen_cooler for k in {2,3,4,5,7,>bins of a chromosome}, chunksize in {1,2,3,row,nnz,1e7} and schedules: "
        "sequential, real multiprocess pools with 2..8 workers and injected per-task delays, and CoolerCoarsener driven "
        "with adversarial ordered map functors (eager, reverse-evaluation, shuffled-evaluation, lazy generator); "
        "oracle = ref_coarsen (index arithmetic); all executions of one base must give the identical file content; "
        "algebra: k1 then k2 == k1*k2, coarsen(merge) == merge(coarsen). Non-trivial: base has >=1 pixel and some "
        "chromosome has >= 2 bins; distinct = (base, k, chunksize, schedule)")
ASSUMPTIONS = ["coarsening is driven with ordered map functors only (Pool.map semantics), as the API requires",
               "values are ints/dyadic floats so aggregation is exact"]
MIN_NONTRIVIAL = {"quick": 150, "thorough": 1500}
REQUIRED_PROBES = ["coarsener_init", "greedy_prune"]
REQUIRED_FEATURES = ["sched:sequential", "sched:pool", "sched:functor:reverse_eval_map", "sched:functor:eager_map",
                     "k>bins-of-every-chromosome", "chunksize:1", "algebra:chain", "algebra:merge-commute",
                     "mode:square", "mode:symm", "agg:max", "agg:count:pool", "coarsen:spans>1", "family:variable", "family:trap",
                     "counts:float-fractional", "agg:mean+dtype:float", "base:legacy-without-storage-mode-attr",
                     "history:failed-parallel-coarsen-then-valid-one", "via:cli-coarsen:field-dtype+agg", "sums:beyond-int32",
                     "family:coarse_trap", "via:cli-coarsen", "family:giant_variable",
                     "family:fixed_exact:odd-width"]
SHARD_TIMEOUT = {"quick": 1800, "thorough": 7200}


def plan(tier, seed):
    n = 16 if tier == "quick" else 48
    per = 3 if tier == "quick" else 30
    return [{"kind": "coarsen", "sub": i, "cases": per, "pool_execs": 2 if tier == "quick" else 4} for i in range(n)]


def run(ctx, shard):
    probes.activate(ctx, owned={"coarsener_init", "greedy_prune"})
    probes.probe_coarsen()
    probes.probe_coarsen_tasks(seed=ctx.seed)
    probes.probe_create_exit()
    rng0 = ctx.rng("plan", shard["sub"])
    for i in range(shard["cases"]):
        seedk = int(rng0.integers(2**31))
        one_base(ctx, shard, i, ctx.rng("case", shard["sub"], i, seedk))


def check_output(c, out, group, bt, P, E, k, symm, agg, label):
    """Compare one coarsened collection with the reference."""
    want_bt = model.ref_coarsen_bt(bt, k)
    with h5py.File(out, "r") as f:
        g = f[group]
        names = [x.decode() for x in g["chroms/name"][:]]
        bc = g["bins/chrom"][:].tolist()
        got_bins = list(zip([names[i] for i in bc], g["bins/start"][:].tolist(), g["bins/end"][:].tolist()))
        sm = g.attrs["sum"]
        mode = g.attrs["storage-mode"]
    ok = c.check(got_bins == gen.bt_bins_list(want_bt), "coarse-bins-differ",
                 f"[{label}] coarsened bin table is not groups of {k} consecutive old bins per chromosome",
                 lambda: {"got": got_bins[:30], "want": gen.bt_bins_list(want_bt)[:30]})
    keys, cols = read_pixels_raw(out, group, ("count", "score"))
    want = model.ref_coarsen(bt, P, k)
    wk = sorted(want)
    if c.check(keys == wk, "coarse-pixel-set-differs", f"[{label}] coarsened pixel set != block aggregation",
               lambda: {"got": keys[:30], "want": wk[:30]}):
        c.check(cols["count"].tolist() == [want[x] for x in wk], "coarse-values-differ",
                f"[{label}] coarsened counts != sums over the k x k blocks",
                lambda: {"got": cols["count"].tolist()[:30], "want": [want[x] for x in wk][:30]})
        if E is not None and not c.check("score" in cols, "requested-value-column-missing-from-output",
                                         f"[{label}] value column 'score' was requested (columns=['count','score']) but the "
                                         f"coarsened pixel table has no such column"):
            pass
        elif E is not None and agg == "count":
            m_ = model.ref_coarsen_map(bt, k)
            cnt = {}
            for (i_, j_) in E:
                cnt[(m_[i_], m_[j_])] = cnt.get((m_[i_], m_[j_]), 0) + 1
            c.check([float(x) for x in cols["score"].tolist()] == [float(cnt[x]) for x in wk], "coarse-extra-column-differs:count",
                    f"[{label}] extra column != number of old pixels in each block",
                    lambda: {"got": cols["score"].tolist()[:20], "want": [cnt[x] for x in wk][:20]})
        elif E is not None:
            wantE = model.ref_coarsen(bt, E, k, agg or "sum")
            c.check(cols["score"].tolist() == [wantE[x] for x in wk], f"coarse-extra-column-differs:{agg or 'sum'}",
                    f"[{label}] extra column != block {agg or 'sum'}")
    c.check(float(sm) == float(sum(P.values())), "coarse-total-not-preserved",
            f"[{label}] sum attribute {sm} != total of the base {sum(P.values())}")
    c.check(mode == ("symmetric-upper" if symm else "square"), "coarse-storage-mode", f"[{label}] storage mode changed")
    return ok


def one_base(ctx, shard, i, rng):
    import cooler
    import multiprocess as mp
    from cooler._reduce import CoolerCoarsener
    from cooler.create import create

    fam = gen.BT_FAMILIES[(shard["sub"] + i) % len(gen.BT_FAMILIES)]
    bt = gen.gen_bt(rng, fam, max_chroms=4, max_bins=22, widths=(1, 2, 3, 5, 10, 1000))
    # arbitrary (non-round) bin widths: the coarse width b*k then takes values such as 49, 98, 103, 161, 11000
    if fam in ("fixed_exact", "fixed_short", "fixed_onebin", "mixed") and rng.random() < 0.6:
        bw = int(rng.integers(2, 400)) if rng.random() < 0.7 else int(rng.integers(2, 60)) * 250
        bt = gen.gen_bt(rng, fam, max_chroms=4, max_bins=22, widths=(bw,))
        fam = fam + ":odd-width"
    giant = (shard["sub"] + i) % 7 == 6
    if giant:
        bt = gen.gen_giant_bt(rng)
        fam = "giant_variable"
    ktrap = None
    if (shard["sub"] + i) % 5 == 4 and not giant:
        ktrap = int(rng.integers(2, 4))
        bt = gen.gen_coarse_trap_bt(rng, ktrap)
        fam = "coarse_trap"
    n = gen.bt_nbins(bt)
    symm = bool(rng.random() < 0.6)
    two = bool(rng.random() < 0.4)
    P = gen.gen_pixels(rng, n, symm, None if ktrap is None else "dense", zeros=0.3 if (shard["sub"] + i) % 6 == 1 else 0.0)
    if not P and rng.random() < 0.7:
        P = gen.gen_pixels(rng, n, symm, "sparse70")
    E = {kk: float(int(rng.integers(-80, 80))) / 8.0 for kk in P} if two else None
    float_counts = bool(rng.random() < 0.3)          # fractional (dyadic) counts stored as float64
    if float_counts:
        P = {kk: (v + float(int(rng.integers(1, 8))) / 8.0 if v else 0.0) for kk, v in P.items()}
    d = ctx.newdir()
    base = os.path.join(d, "base.cool")
    path_reused = bool(rng.random() < 0.3)
    if path_reused:
        # history: the base path held ANOTHER cooler (other bin table) that was coarsened in this process before
        import cooler
        pre_bt = gen.gen_bt(rng, None, max_chroms=3, max_bins=9)
        make_cooler(base, pre_bt, gen.gen_pixels(rng, gen.bt_nbins(pre_bt), symm, "sparse70") or {(0, 0): 1}, symm=symm)
        cooler.coarsen_cooler(base, os.path.join(d, "pre.out.cool"), 2, chunksize=10**6)
        os.remove(os.path.join(d, "pre.out.cool"))
    make_cooler(base, bt, P, symm=symm, extra={"score": E} if two else None,
                count_dtype=np.float64 if float_counts else None)
    legacy = bool(symm and rng.random() < 0.2)
    if legacy:
        # file as written by old versions: no storage-mode attribute (it then means symmetric-upper)
        with h5py.File(base, "r+") as f:
            del f.attrs["storage-mode"]
    maxb = max(len(e) - 1 for _, e in bt)
    minb = min(len(e) - 1 for _, e in bt)
    rowlen = max([sum(1 for kk in P if kk[0] == r) for r in range(n)] or [1])
    ks = sorted({2, 3, int([4, 5, 7][int(rng.integers(3))]), minb + 1, maxb + 1})
    ks = [k for k in ks if k >= 2]
    if ":odd-width" in fam:
        ks = sorted(set(ks + [7, int(rng.integers(2, 12))]))[:6]
    if ktrap is not None:
        ks = sorted(set([ktrap] + ks[:2]))
    chunks = [1, 2, 3, max(rowlen, 1), max(len(P), 1), 10**7]
    base_desc = {"bt": bt, "symm": symm, "pixels": sorted((a, b, v) for (a, b), v in P.items())[:150], "two_cols": two}
    nontriv = bool(P) and maxb >= 2
    pool_left = shard["pool_execs"]
    for k in ks:
        digests = {}
        execs = []
        for cs in [chunks[int(x)] for x in rng.permutation(len(chunks))[:3]]:
            execs.append(("sequential", cs, None))
        execs.append(("functor", chunks[int(rng.integers(4))], int(rng.integers(4))))
        execs.append(("functor", 1, int(rng.integers(4))))
        if pool_left > 0:
            execs.append(("pool", chunks[int(rng.integers(4))], int([2, 3, 4, 8][int(rng.integers(4))])))
            pool_left -= 1
        for x, (kind, cs, arg) in enumerate(execs):
            cid = f"c:{shard['sub']}:{i}:k{k}:{x}"
            if not ctx.want(cid):
                continue
            out = os.path.join(d, f"out_k{k}_{x}.cool")
            agg = {"score": "max"} if two and x % 3 == 1 else ({"score": "count"} if two and (x % 3 == 2 or kind == "pool") else None)
            desc = dict(base_desc, factor=k, chunksize=cs, schedule=[kind, arg], agg=agg)
            with ctx.case(cid, desc) as c:
                c.feature(f"mode:{'symm' if symm else 'square'}", f"family:{fam}", f"chunksize:{cs if cs < 4 else 'big'}")
                if path_reused:
                    c.feature("history:base-path-held-another-cooler-that-was-coarsened")
                if k > maxb:
                    c.feature("k>bins-of-every-chromosome")
                elif k > minb:
                    c.feature("k>bins-of-some-chromosome")
                if agg:
                    c.feature(f"agg:{agg['score']}" + (":pool" if kind == "pool" and agg["score"] == "count" else ""))
                if float_counts:
                    c.feature("counts:float-fractional")
                if legacy:
                    c.feature("base:legacy-without-storage-mode-attr")
                cols = ["count", "score"] if two else None
                if kind == "sequential" and x == 2:
                    from click.testing import CliRunner
                    from cooler.cli import cli
                    args = ["coarsen", base, "-k", str(k), "-c", str(cs), "-o", out]
                    if two:
                        args += ["--field", "count", "--field", "score" + (f":agg={agg['score']}" if agg else "")]
                    r = CliRunner().invoke(cli, args)
                    c.feature("sched:sequential", "via:cli-coarsen")
                    if r.exit_code != 0:
                        raise (r.exception or RuntimeError(r.output[-300:]))
                elif kind == "sequential" and x == 1:
                    odt = np.float32 if float_counts else np.int64
                    cooler.coarsen_cooler(base, out, k, chunksize=cs, nproc=1, columns=cols, agg=agg, dtypes={"count": odt})
                    c.feature("sched:sequential", "option:dtypes-override")
                    with h5py.File(out, "r") as f:
                        c.check(f["pixels/count"].dtype == np.dtype(odt), "coarsen-dtypes-override-ignored",
                                f"dtypes={{'count': {np.dtype(odt).name}}} requested but count is stored as {f['pixels/count'].dtype}")
                elif kind == "sequential":
                    cooler.coarsen_cooler(base, out, k, chunksize=cs, nproc=1, columns=cols, agg=agg)
                    c.feature("sched:sequential")
                elif kind == "pool":
                    cooler.coarsen_cooler(base, out, k, chunksize=cs, nproc=arg, columns=cols, agg=agg)
                    c.feature("sched:pool", f"sched:pool:{arg}")
                    evs = probes.collect_worker_events(ctx)
                    tasks = [e for e in evs if e.get("ev") == "coarsen_task" and e.get("worker")]
                    pids = sorted({e["pid"] for e in tasks})
                    order = tuple(tuple(e["span"]) for e in sorted(tasks, key=lambda e: e["t1"]))
                    inorder = order == tuple(sorted(order))
                    ctx.extra.setdefault("pool_runs", 0)
                    ctx.extra["pool_runs"] += 1
                    ctx.extra["pool_tasks_observed"] = ctx.extra.get("pool_tasks_observed", 0) + len(tasks)
                    ctx.extra["pool_runs_completing_out_of_order"] = ctx.extra.get(
                        "pool_runs_completing_out_of_order", 0) + (0 if inorder else 1)
                    ctx.extra["max_worker_pids_in_one_run"] = max(ctx.extra.get("max_worker_pids_in_one_run", 0), len(pids))
                    if tasks:
                        c.check(len(tasks) >= 1, "harness:no-worker-task", "no worker task observed")
                else:
                    functors = [sched.eager_map, sched.reverse_eval_map, sched.make_shuffled_eval_map(arg + 11),
                                sched.lazy_gen_map]
                    fn = functors[arg % 4]
                    name = getattr(fn, "__name__", "functor").split("_map")[0] + "_map"
                    c.feature(f"sched:functor:{name}")
                    it = CoolerCoarsener(base, k, cs, columns=["count", "score"] if two else ["count"], agg=agg,
                                         batchsize=int([1, 2, 5][int(rng.integers(3))]), map=fn)
                    dt = {"count": np.float64 if float_counts else np.int32}
                    if two:
                        dt["score"] = np.float64
                    create(out, it.new_bins, it, columns=cols, dtypes=dt, symmetric_upper=symm,
                           triucheck=symm, mode="w")
                probes.collect_worker_events(ctx)
                check_output(c, out, "/", bt, P, E, k, symm, agg["score"] if agg else None, f"{kind}:{arg}:cs={cs}")
                with h5py.File(out, "r") as f:
                    dg = h5state.content_digest(f["/"], skip_cols=(("pixels", "score"), ("pixels", "count"))) + \
                        repr(f["pixels/count"][:].tolist())
                digests[(kind, cs, arg)] = dg
                if len(set(digests.values())) > 1:
                    c.fail("coarsen-depends-on-chunksize-or-schedule",
                           f"coarsening by {k} differs between executions {list(digests)[:6]}")
                if nontriv:
                    c.nontrivial(repr(bt), repr(sorted(P.items())), k, cs, kind, arg)
                ctx.sample({"factor": k, "chunksize": cs, "schedule": [kind, arg], "nbins": n, "nnz": len(P),
                            "family": fam}, limit=5)
            if os.path.exists(out):
                os.remove(out)
    # ------------------------------------------------ history: a parallel coarsening that fails in the workers, then a valid one
    cid = f"c:{shard['sub']}:{i}:after-failed-parallel"
    if ctx.want(cid) and shard["pool_execs"] > 0 and P:
        import cooler.parallel as PAR
        with ctx.case(cid, dict(base_desc, history=["coarsen nproc=2 with an unknown aggregate (fails)", "coarsen nproc=2"])) as c:
            raised = None
            try:
                cooler.coarsen_cooler(base, os.path.join(d, "failed.cool"), 2, chunksize=chunks[int(rng.integers(4))], nproc=2,
                                      agg={"count": "no_such_aggregate"})
            except Exception as e:  # noqa  (the refusal itself is not what is judged)
                raised = type(e).__name__
            c.feature("history:failed-parallel-coarsen-then-valid-one")
            # logical observation instead of a deadline: is the module's write lock still held?
            free = PAR.lock.acquire(False)
            PAR.lock.release()       # (either our probe's hold or the leaked one: the rest of the shard must not hang)
            c.check(free, "lock-left-held-after-failed-parallel-coarsen",
                    f"after a parallel coarsening that failed ({raised}), cooler.parallel.lock is still held: every later "
                    f"coarsening with nproc > 1 in this process would wait forever")
            if free:
                out = os.path.join(d, "after_failed.cool")
                cooler.coarsen_cooler(base, out, 2, chunksize=chunks[int(rng.integers(4))], nproc=2)
                check_output(c, out, "/", bt, P, None, 2, symm, None, "parallel run after a failed one")
            probes.collect_worker_events(ctx)
    # ------------------------------------------------ requested aggregate together with a requested dtype
    cid = f"c:{shard['sub']}:{i}:mean"
    if ctx.want(cid) and P:
        k = ks[int(rng.integers(len(ks)))]
        cs = chunks[int(rng.integers(len(chunks)))]
        out = os.path.join(d, "mean.cool")
        via_cli = bool(rng.random() < 0.5)
        with ctx.case(cid, dict(base_desc, factor=k, chunksize=cs, agg={"count": "mean"}, dtypes={"count": "float64"},
                                via="cli" if via_cli else "api")) as c:
            c.feature("agg:mean+dtype:float", "via:cli-coarsen:field-dtype+agg" if via_cli else "via:api")
            if via_cli:
                from click.testing import CliRunner
                from cooler.cli import cli
                spec = "count:dtype=float64,agg=mean" if rng.random() < 0.5 else "count:agg=mean,dtype=float64"
                r = CliRunner().invoke(cli, ["coarsen", base, "-k", str(k), "-c", str(cs), "-o", out, "--field", spec])
                if r.exit_code != 0:
                    raise (r.exception or RuntimeError(r.output[-300:]))
            else:
                cooler.coarsen_cooler(base, out, k, chunksize=cs, agg={"count": "mean"}, dtypes={"count": np.float64})
            keys, cols = read_pixels_raw(out, "/", ("count",))
            want = model.ref_coarsen(bt, P, k, "mean")
            wk = sorted(want)
            if c.check(keys == wk, "coarse-pixel-set-differs", "[mean] coarsened pixel set != block aggregation"):
                got = cols["count"]
                c.check(got.dtype == np.float64 and bool(np.allclose(got, [want[x] for x in wk], rtol=1e-12, atol=0)),
                        "coarse-values-differ:mean-with-float-dtype",
                        f"coarsen by {k} with agg mean and dtype float64: stored values are not the block means",
                        lambda: {"got": got.tolist()[:20], "want": [want[x] for x in wk][:20], "dtype": str(got.dtype)})
            if nontriv:
                c.nontrivial(repr(bt), repr(sorted(P.items())), k, cs, "mean")
    # ------------------------------------------------ block sums beyond the range of the stored integer type
    cid = f"c:{shard['sub']}:{i}:wide"
    if ctx.want(cid) and n >= 2 and (shard["sub"] + i) % 3 == 0:
        big = os.path.join(d, "big.cool")
        Pb = {kk: int(2**30 + int(rng.integers(0, 2**29))) for kk in list(gen.gen_pixels(rng, n, symm, "dense"))}
        make_cooler(big, bt, Pb, symm=symm)
        k = 2
        want = model.ref_coarsen(bt, Pb, k)
        with ctx.case(cid, dict(base_desc, factor=k, case="block sums >= 2**31 on an int32 column", pixels=None)) as c:
            if max(want.values()) >= 2**31:
                c.feature("sums:beyond-int32")
                for dts in ({"count": np.int64}, None):
                    out = os.path.join(d, f"wide_{'i64' if dts else 'default'}.cool")
                    raised = None
                    try:
                        cooler.coarsen_cooler(big, out, k, chunksize=int([3, 10**7][int(rng.integers(2))]), dtypes=dts)
                    except (ValueError, OverflowError) as e:
                        raised = f"{type(e).__name__}: {e}"
                    if dts is not None:
                        c.check(raised is None, "coarsen-int64-requested-but-refused", f"dtypes=int64 run raised {raised}")
                    if raised is None:
                        keys, cols = read_pixels_raw(out, "/", ("count",))
                        wk = sorted(want)
                        c.check(keys == wk and [int(x) for x in cols["count"].tolist()] == [want[x] for x in wk],
                                "coarse-values-differ:sum-beyond-int32:" + ("int64-requested" if dts else "default-dtype-silent"),
                                f"block sums of up to {max(want.values())} were stored as different values without an error "
                                f"(dtypes={'int64' if dts else 'default'})",
                                lambda: {"got": cols["count"].tolist()[:10], "want": [want[x] for x in wk][:10]})
                    else:
                        c.feature("sums:beyond-int32:refused-with-error")
                c.nontrivial(repr(bt), "wide", repr(sorted(Pb.items())[:20]))
    # ------------------------------------------------ algebra
    fw = gen.bt_fixed_width(bt)
    cid = f"c:{shard['sub']}:{i}:chain"
    if ctx.want(cid) and fw is not None:
        with ctx.case(cid, dict(base_desc, algebra="chain")) as c:
            k1, k2 = int(rng.integers(2, 4)), int(rng.integers(2, 4))
            a, b, ab = (os.path.join(d, x) for x in ("k1.cool", "k1k2.cool", "k12.cool"))
            cs = chunks[int(rng.integers(len(chunks)))]
            cooler.coarsen_cooler(base, a, k1, chunksize=cs)
            cooler.coarsen_cooler(a, b, k2, chunksize=cs)
            cooler.coarsen_cooler(base, ab, k1 * k2, chunksize=cs)
            # composition holds when each chromosome's groups nest: always true for consecutive grouping
            c.feature("algebra:chain")
            c.check(h5state.digest_uri(b, attrs=False) == h5state.digest_uri(ab, attrs=False),
                    "coarsen-chain-differs", f"coarsen {k1} then {k2} != coarsen {k1 * k2}",
                    lambda: {"diff": h5state.diff_uris(b, ab)})
            check_output(c, b, "/", bt, P, None, k1 * k2, symm, None, f"chain {k1}x{k2}")
    cid = f"c:{shard['sub']}:{i}:commute"
    if ctx.want(cid):
        with ctx.case(cid, dict(base_desc, algebra="merge-commute")) as c:
            k = int(rng.integers(2, 5))
            P2 = gen.gen_pixels(rng, n, symm, None)
            base2 = os.path.join(d, "base2.cool")
            make_cooler(base2, bt, P2, symm=symm)
            m, cm, c1, c2, mc = (os.path.join(d, x) for x in ("m.cool", "cm.cool", "c1.cool", "c2.cool", "mc.cool"))
            cs = chunks[int(rng.integers(len(chunks)))]
            cooler.merge_coolers(m, [base, base2], mergebuf=int([2, 10**7][int(rng.integers(2))]))
            cooler.coarsen_cooler(m, cm, k, chunksize=cs)
            cooler.coarsen_cooler(base, c1, k, chunksize=cs)
            cooler.coarsen_cooler(base2, c2, k, chunksize=cs)
            cooler.merge_coolers(mc, [c1, c2], mergebuf=int([2, 10**7][int(rng.integers(2))]))
            c.feature("algebra:merge-commute")
            c.check(h5state.digest_uri(cm, attrs=False) == h5state.digest_uri(mc, attrs=False),
                    "coarsen-merge-do-not-commute", f"coarsen_{k}(merge(a,b)) != merge(coarsen_{k}(a), coarsen_{k}(b))",
                    lambda: {"diff": h5state.diff_uris(cm, mc)})
            Pm = model.fold(list(P.items()) + list(P2.items()))
            check_output(c, cm, "/", bt, Pm, None, k, symm, None, "coarsen(merge)")
