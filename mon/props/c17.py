"""C17 Every cell of a single-cell file reads back as the matrix given for it."""
from __future__ import annotations

import os

import h5py
import numpy as np
import pandas as pd

from .. import gen, h5state, model, probes

RULE = ("generated single-cell files: 1-8 cells with pairwise different matrices (incl. empty and dense), names with "
        "digits/dots/dashes/natural-sort traps, one common bin table or per-cell tables with distinct extra columns, "
        "both storage modes, ordered/unordered creation, pixels as DataFrame or chunk iterables; after create_scool: "
        "list_scool_cells == {/cells/<name>}, is_scool_file, each cell via Cooler(file::/cells/x) (pixels, full matrix, "
        "info) == its own PixelDict, bins/{chrom,start,end} of every cell share the HDF5 object address of the root's, "
        "per-cell extra columns equal that cell's, schema validator on every cell. Non-trivial: >=2 cells with different "
        "non-empty matrices; distinct = (bins, cells, options)")
ASSUMPTIONS = ["cell names are non-empty printable ASCII, not '.'/'..', pairwise distinct; a key containing '/' is a file "
               "path and names the cell after its last component (create_scool's own rule)",
               "append histories (mode='a') are checked for listing, recognition and read-back only - the shared-bin-table "
               "clause is stated for one creation",
               "pixel tables are given sorted by (bin1_id, bin2_id) as create_scool documents (its ordered=False flag "
               "is accepted but does no sorting - see DESIGN observations)"]
MIN_NONTRIVIAL = {"quick": 80, "thorough": 800}
REQUIRED_PROBES = ["create_exit"]
REQUIRED_FEATURES = ["bins:common", "bins:per-cell", "cells:has-empty", "cells:1", "mode:symm", "mode:square",
                     "create:ordered", "create:ordered-false-flag", "names:natsort-trap", "dtypes:count-float",
                     "columns:extra", "bins:common-with-extra-column", "keys:multi-component-path", "keys:one-slash-path",
                     "history:append-replaces-a-cell", "history:append-new-cells-only",
                     "option:ensure_sorted+unsorted-cell-tables", "history:column-stored-in-one-cell-later"]

CELL_NAMES = ["c2", "c10", "c1", "cell_A.1", "GSM123-rep.2", "10", "2", "sample 3", "Cell", "cell", "x.y.z", "a-b_c",
              "c02", "c010"]


def plan(tier, seed):
    n = 16 if tier == "quick" else 48
    per = 20 if tier == "quick" else 150
    return [{"kind": "scool", "sub": i, "cases": per} for i in range(n)]


def run(ctx, shard):
    probes.activate(ctx)
    probes.probe_create_exit()
    rng0 = ctx.rng("plan", shard["sub"])
    for i in range(shard["cases"]):
        seedk = int(rng0.integers(2**31))
        rng = ctx.rng("case", shard["sub"], i, seedk)
        cid = f"sc:{shard['sub']}:{i}"
        if ctx.want(cid):
            one_file(ctx, cid, rng, shard["sub"] * 100 + i)


def one_file(ctx, cid, rng, idx):
    import cooler

    fam = gen.BT_FAMILIES[idx % len(gen.BT_FAMILIES)]
    bt = gen.gen_bt(rng, fam, max_chroms=3, max_bins=14)
    n = gen.bt_nbins(bt)
    symm = bool(rng.random() < 0.65)
    ncell = int([1, 2, 3, 5, 8][int(rng.integers(5))])
    names = [CELL_NAMES[int(x)] for x in rng.permutation(len(CELL_NAMES))[:ncell]]
    cells = {}
    for k, nm in enumerate(names):
        pat = ["empty", "dense", None, None, "sparse30", "diag"][int(rng.integers(6))]
        P = gen.gen_pixels(rng, n, symm, pat)
        P = {kk: v + k for kk, v in P.items()}          # pairwise different values
        cells[nm] = P
    # value dtypes: default int32 counts, or float counts with fractional parts (+ an extra column)
    float_counts = bool(rng.random() < 0.4)
    extra_col = bool(rng.random() < 0.3)
    if float_counts:
        cells = {nm: {kk: v + float(int(rng.integers(1, 8))) / 8.0 for kk, v in P.items()} for nm, P in cells.items()}
    scores = {nm: {kk: float(int(rng.integers(-40, 40))) / 8.0 for kk in P} for nm, P in cells.items()}
    per_cell_bins = bool(rng.random() < 0.4)
    ordered = bool(rng.random() < 0.5)
    bins = gen.bt_frame(bt)
    bins_arg = bins
    extra = {}
    if per_cell_bins:
        bins_arg = {}
        for k, nm in enumerate(names):
            b = bins.copy()
            extra[nm] = np.round(rng.random(n), 4) + k
            b["weight"] = extra[nm]
            if k % 2 == 0:
                b["tag"] = rng.integers(0, 50, size=n) + 100 * k
                extra[nm + "::tag"] = b["tag"].to_numpy()
            if k % 3 == 1:
                # column order is the caller's business: extras first / in between
                order = ["weight", "chrom", "start"] + (["tag"] if "tag" in b.columns else []) + ["end"]
                b = b[order]
                c_order = True
            bins_arg[nm] = b
    common_extra = None
    if not per_cell_bins and rng.random() < 0.4:
        # a common bin table that carries an extra column (first, in between or last)
        common_extra = np.round(rng.random(n), 4)
        b = bins.copy()
        b.insert(int([0, 2, 3][int(rng.integers(3))]), "cov", common_extra)
        bins_arg = b
    # dictionary keys as a caller has them: plain names, or file paths (the cell is named after the last component)
    keystyle = int(rng.integers(5))
    prefix = {0: "", 1: "", 2: "batch1/", 3: "plate7/run2/", 4: "/data/sc/run.3/"}[keystyle]
    keyof = {nm: prefix + nm for nm in names}
    if per_cell_bins:
        # the two dictionaries are keyed by EQUAL strings that are separately built objects (as when parsed from paths)
        bins_arg = {"".join(list(keyof[nm])): b for nm, b in bins_arg.items()}
        if rng.random() < 0.5:
            # the per-cell tables agree value for value but not in representation (as tables from different sources
            # do): categorical vs plain chromosome column, int32 vs int64 coordinates, a non-default row index
            reps = {}
            for j_, (kk_, b_) in enumerate(bins_arg.items()):
                b_ = b_.copy()
                v_ = (j_ + int(rng.integers(4))) % 4
                if v_ == 1:
                    b_["chrom"] = pd.Categorical(b_["chrom"].astype(str), categories=[nm_ for nm_, _ in bt], ordered=True)
                elif v_ == 2:
                    b_ = b_.astype({"start": np.int32, "end": np.int32})
                elif v_ == 3:
                    b_ = b_.set_axis(np.arange(len(b_)) + 5, axis=0)
                reps[kk_] = b_
            bins_arg = reps
            c_feat_reps = True
        else:
            c_feat_reps = False
    ens = bool(rng.random() < 0.3)          # ensure_sorted=True: cell tables may then come in any row order
    pix_arg = {}
    for nm, P in cells.items():
        df = gen.pixels_frame(P, {"score": scores[nm]} if extra_col else None,
                              count_dtype=np.float64 if float_counts else None)
        if ens and len(df) > 1:
            df = df.iloc[rng.permutation(len(df))].reset_index(drop=True)
        cidt = [None, None, np.int32, np.int8, np.uint8, np.uint16, np.int16][int(rng.integers(7))]
        if cidt is not None and n <= np.iinfo(cidt).max:
            df = df.astype({"bin1_id": cidt, "bin2_id": cidt})       # e.g. scipy.sparse COO .row/.col are int32
        if ens:
            pix_arg[keyof[nm]] = df          # one table per cell: the sort is per chunk
        elif ordered:
            pix_arg[keyof[nm]] = df if rng.random() < 0.5 else iter(gen.chunk_frames(df, gen.random_cuts(rng, len(df), 4)))
        else:
            # create_scool documents sorted pixel tables; ordered=False must not change the result
            pix_arg[keyof[nm]] = df if rng.random() < 0.5 else iter(gen.chunk_frames(df, gen.random_cuts(rng, len(df), 3)))
    path = ctx.path(suffix=".scool")
    desc = {"bt": bt, "symm": symm, "cells": {nm: sorted((a, b, v) for (a, b), v in P.items())[:40] for nm, P in cells.items()},
            "per_cell_bins": per_cell_bins, "ordered": ordered}
    with ctx.case(cid, desc) as c:
        if per_cell_bins and c_feat_reps:
            c.feature("bins:per-cell:tables-differ-in-representation")
        c.feature("bins:per-cell" if per_cell_bins else "bins:common", f"mode:{'symm' if symm else 'square'}",
                  f"cells:{ncell}" if ncell == 1 else "cells:many", "create:ordered" if ordered else "create:ordered-false-flag",
                  f"family:{fam}")
        if any(not P for P in cells.values()):
            c.feature("cells:has-empty")
        c.feature({"": "keys:plain-names", "batch1/": "keys:one-slash-path"}.get(prefix, "keys:multi-component-path"))
        if {"c2", "c10"} <= set(names) or {"2", "10"} <= set(names) or {"c02", "c010"} <= set(names):
            c.feature("names:natsort-trap")
        kw = dict(symmetric_upper=symm, ordered=ordered)
        if not symm:
            kw["triucheck"] = False
        if not ordered:
            kw["mergebuf"] = int([3, 10**6][int(rng.integers(2))])
        if float_counts:
            kw["dtypes"] = {"count": np.float64}
            c.feature("dtypes:count-float")
        if extra_col:
            kw["columns"] = ["count", "score"]
            c.feature("columns:extra")
        if ens:
            kw["ensure_sorted"] = True
            c.feature("option:ensure_sorted+unsorted-cell-tables")
        cooler.create_scool(path, bins_arg, pix_arg, **kw)
        listing = cooler.fileops.list_scool_cells(path)
        c.check(sorted(listing) == sorted(f"/cells/{nm}" for nm in names), "cell-listing-differs",
                f"list_scool_cells = {listing}, expected cells {sorted(names)}")
        c.check(cooler.fileops.is_scool_file(path), "not-recognised-as-scool", "is_scool_file is False")
        with h5py.File(path, "r") as f:
            raw_cells = sorted(f["cells"].keys()) if "cells" in f else []
            root_addr = {k: h5py.h5o.get_info(f["bins"][k].id).addr for k in ("chrom", "start", "end")}
            c.check(raw_cells == sorted(names), "cell-groups-differ", f"groups under /cells: {raw_cells}")
            c.check(int(f.attrs.get("ncells", -1)) == ncell, "ncells-attr", f"ncells={f.attrs.get('ncells')} for {ncell} cells")
            for nm in names:
                if nm not in f["cells"]:
                    continue
                g = f["cells"][nm]
                shared = all(h5py.h5o.get_info(g["bins"][k].id).addr == root_addr[k] for k in ("chrom", "start", "end"))
                c.check(shared, "bin-table-not-shared", f"cell {nm}: bins/chrom,start,end are not the root's objects (stored again)")
                for key, msg in h5state.validate_collection(g):
                    c.fail(f"cell-invalid:{key}", f"cell {nm}: {msg}")
                if common_extra is not None:
                    cv = g["bins/cov"][:] if "cov" in g["bins"] else None
                    c.check(cv is not None and np.array_equal(cv, common_extra), "common-extra-bin-column-lost",
                            f"cell {nm}: the extra column of the common bin table is missing or different")
                    c.feature("bins:common-with-extra-column")
                if per_cell_bins:
                    w = g["bins/weight"][:] if "weight" in g["bins"] else None
                    c.check(w is not None and np.array_equal(w, extra[nm]), "per-cell-column-mixed-up",
                            f"cell {nm}: bins/weight is not the column given for this cell")
                    if nm + "::tag" in extra:
                        t = g["bins/tag"][:] if "tag" in g["bins"] else None
                        c.check(t is not None and np.array_equal(t, extra[nm + "::tag"]), "per-cell-column-mixed-up",
                                f"cell {nm}: bins/tag is not the column given for this cell")
                    else:
                        c.check("tag" not in g["bins"], "per-cell-column-leaked", f"cell {nm} has another cell's 'tag' column")
        for nm, P in cells.items():
            if f"/cells/{nm}" not in listing:
                continue
            clr = cooler.Cooler(f"{path}::/cells/{nm}")
            pt = clr.pixels()[:]
            got = dict(zip(zip(pt["bin1_id"].tolist(), pt["bin2_id"].tolist()), pt["count"].tolist()))
            c.check(got == P and list(got) == sorted(P), "cell-pixels-differ",
                    f"cell {nm} does not read back as the pixel table given for it",
                    lambda: {"got": sorted(got.items())[:20], "want": sorted(P.items())[:20]})
            if extra_col:
                c.check("score" in pt.columns and pt["score"].tolist() == [scores[nm][kk] for kk in sorted(P)],
                        "cell-extra-column-differs", f"cell {nm}: extra pixel column differs from the one given")
            c.check(str(pt["count"].dtype) == "float64" if float_counts else pt["count"].dtype.kind in "iu", "cell-count-dtype",
                    f"cell {nm}: count stored as {pt['count'].dtype}")
            m = clr.matrix(balance=False)[:, :]
            c.check(np.array_equal(m, model.dense(P, n, symm)), "cell-matrix-differs", f"cell {nm}: full matrix differs")
            bb = clr.bins()[["chrom", "start", "end"]][:]
            c.check(list(zip(bb["chrom"].astype(str), bb["start"].tolist(), bb["end"].tolist())) == gen.bt_bins_list(bt),
                    "cell-bins-differ", f"cell {nm}: bin table differs from the common one")
            c.check(clr.info["nnz"] == len(P) and clr.info["sum"] == sum(P.values()), "cell-info-differs",
                    f"cell {nm}: nnz/sum differ")
        # history: a bin-level column is stored in ONE cell through the ordinary interface afterwards
        # (balance_cooler(store=True) or an open("r+") handle): the other cells and the root table do not get it
        if idx % 3 == 1 and ncell >= 2 and not c.failed and not per_cell_bins and common_extra is None:
            target = names[int(rng.integers(len(names)))]
            tclr = cooler.Cooler(f"{path}::/cells/{target}")
            if rng.random() < 0.5 and cells[target]:
                import warnings
                with warnings.catch_warnings():
                    warnings.simplefilter("ignore")
                    with np.errstate(all="ignore"):
                        cooler.balance_cooler(tclr, store=True, ignore_diags=0, min_nnz=0, mad_max=0, max_iters=5)
                how = "balance_cooler(store=True)"
            else:
                with tclr.open("r+") as g:
                    g["bins"].create_dataset("weight", data=np.arange(n, dtype=float))
                how = "open('r+') handle"
            c.feature("history:column-stored-in-one-cell-later")
            with h5py.File(path, "r") as f:
                leaked = [nm for nm in names if nm != target and "weight" in f["cells"][nm]["bins"]]
                c.check(not leaked and "weight" not in f["bins"], "per-cell-column-leaked:stored-later",
                        f"a 'weight' column stored in cell {target} via {how} also appears in cells {leaked}"
                        f"{' and in the root bin table' if 'weight' in f['bins'] else ''}")
                c.check("weight" in f["cells"][target]["bins"], "per-cell-column-lost:stored-later",
                        f"the column stored in cell {target} is not there")
        # history: further batches appended with mode="a" (new cells, and one earlier cell replaced)
        if idx % 3 == 0 and not c.failed:
            spare = [x for x in CELL_NAMES if x not in names]
            newnames = [spare[int(x)] for x in rng.permutation(len(spare))[: int(rng.integers(1, 3))]]
            batch = {}
            for k, nm in enumerate(newnames + ([names[0]] if rng.random() < 0.5 else [])):
                P = gen.gen_pixels(rng, n, symm, [None, "dense", "sparse30"][int(rng.integers(3))])
                P = {kk: v + 50 + k + (0.5 if float_counts else 0) for kk, v in P.items()}
                batch[nm] = P
                scores[nm] = {kk: float(int(rng.integers(-40, 40))) / 8.0 for kk in P}
            pix2 = {nm: gen.pixels_frame(P, {"score": scores[nm]} if extra_col else None,
                                         count_dtype=np.float64 if float_counts else None) for nm, P in batch.items()}
            cooler.create_scool(path, bins, pix2, mode="a", **kw)
            cells_all = dict(cells)
            cells_all.update(batch)
            c.feature("history:append-batch(mode=a)", "history:append-replaces-a-cell" if names[0] in batch
                      else "history:append-new-cells-only")
            listing = cooler.fileops.list_scool_cells(path)
            c.check(sorted(listing) == sorted(f"/cells/{nm}" for nm in cells_all), "cell-listing-differs:after-append",
                    f"after a second create_scool(mode='a') with cells {sorted(batch)}: list_scool_cells = {sorted(listing)}, "
                    f"the file was given {sorted(cells_all)}")
            c.check(cooler.fileops.is_scool_file(path), "not-recognised-as-scool:after-append", "is_scool_file is False")
            for nm, P in cells_all.items():
                if f"/cells/{nm}" not in listing:
                    continue
                pt = cooler.Cooler(f"{path}::/cells/{nm}").pixels()[:]
                got = dict(zip(zip(pt["bin1_id"].tolist(), pt["bin2_id"].tolist()), pt["count"].tolist()))
                c.check(got == P and list(got) == sorted(P), "cell-pixels-differ:after-append",
                        f"cell {nm} does not read back as the pixel table given for it after an append",
                        lambda: {"got": sorted(got.items())[:20], "want": sorted(P.items())[:20]})
        nonempty = [repr(sorted(P.items())) for P in cells.values() if P]
        if len(set(nonempty)) >= 2:
            c.nontrivial(repr(bt), repr(desc["cells"]), per_cell_bins, ordered, symm)
        ctx.sample({"cells": names, "nnz": [len(P) for P in cells.values()], "per_cell_bins": per_cell_bins,
                    "ordered": ordered, "symm": symm}, limit=5)
    if os.path.exists(path):
        os.remove(path)
