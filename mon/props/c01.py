"""C01 Create-then-read round trip returns exactly the matrix that was stored."""
from __future__ import annotations

import json
import os

import h5py
import numpy as np
import pandas as pd

from .. import gen, model, probes

RULE = ("generated (bin table family x sparsity pattern x storage mode x input form x value dtypes/extra columns x "
        "HDF5 filter set x destination root/nested x metadata document); the cooler is created through "
        "cooler.create_cooler and read back through pixels(), matrix() dense/sparse/as_pixels, info, via path, "
        "URI and open handle; oracle = the generated PixelDict / Dense(P, mode). Non-trivial: at least one pixel; "
        "distinct = (bins, pixels, mode, input form, dtypes, filters)")
ASSUMPTIONS = ["values are exactly representable in the declared dtype (unrepresentable values are C07's clause)",
               "explicit HDF5 chunks= option, assembly names that are JSON literals and non-string metadata keys are "
               "outside the domain (DESIGN 4/C01 guards)"]
MIN_NONTRIVIAL = {"quick": 300, "thorough": 3000}
REQUIRED_PROBES = ["write_pixels"]
REQUIRED_FEATURES = ["form:df_sorted", "form:df_shuffled", "form:dict", "form:chunks_df", "form:chunks_dict",
                     "form:arrayloader", "chunks:leading-empty", "chunks:trailing-empty", "chunks:all-empty",
                     "mode:square", "mode:symm", "extra-columns:2", "ensure_sorted:shuffled-chunk",
                     "ensure_sorted:rows-ordered-columns-shuffled", "pixels:stored-zero-values",
                     "ensure_sorted:with-all-checks-off"]

FORMS = ["df_sorted", "df_shuffled", "dict", "chunks_df", "chunks_dict", "arrayloader", "chunks_df", "chunks_dict"]
H5OPTS = [None, {"compression": "lzf"}, {"compression": "gzip", "compression_opts": 1},
          {"compression": "gzip", "compression_opts": 9}, {"fletcher32": True}, {"shuffle": False},
          {"compression": None, "shuffle": False}, None]
COUNT_DTYPES = [None, "int64", "uint16", "float32", "float64", None, "int32", "float64"]
METADATA = [None, {}, {"a": 1}, {"exp": "Hi-C", "n": 3, "ok": True, "none": None, "f": 0.125, "neg": -7},
            {"nested": {"list": [1, 2.5, "x", None, [True, False]], "d": {"k": "v"}}},
            {"unicode": "héllo 世界", "empty": "", "long": "x" * 300},
            {"numbers": [0, -1, 2**40, 1e-9, 1.5e300], "s": "1", "t": "true"},
            {"list": []}, {"k" * 40: {"deep": [{"a": [{"b": [1]}]}]}},
            [], [1, "two", {"three": 3}], 0, False, "", "free text"]          # any JSON document, falsy ones included
ASSEMBLIES = [None, "hg19", "mm10", "GRCh38.p13", "dm6_custom-build", "T2T-CHM13v2.0", ""]


def plan(tier, seed):
    n = 16 if tier == "quick" else 48
    per = 90 if tier == "quick" else 600
    return [{"kind": "rt", "sub": i, "cases": per} for i in range(n)]


def run(ctx, shard):
    probes.activate(ctx, owned={"write_pixels"})
    probes.probe_write_pixels()
    probes.probe_create_exit()
    probes.probe_rlencode()
    probes.probe_indexes()
    rng0 = ctx.rng("plan", shard["sub"])
    for k in range(shard["cases"]):
        cid = f"rt:{shard['sub']}:{k}"
        seedk = int(rng0.integers(2**31))
        if not ctx.want(cid):
            continue
        rng = ctx.rng("case", shard["sub"], k, seedk)
        one_case(ctx, cid, rng, shard["sub"] * 1000 + k)


def make_case(rng, idx):
    fam = gen.BT_FAMILIES[idx % len(gen.BT_FAMILIES)]
    bt = gen.gen_bt(rng, fam, max_chroms=5, max_bins=28)
    if idx % 11 == 10:
        bt = gen.gen_giant_bt(rng)             # > 2**31 bp in total, coordinates near the int32 limit
        fam = "giant_variable"
    elif idx % 11 == 9:
        w_ = int([10**4, 10**5, 10**6, 5 * 10**6][int(rng.integers(4))])       # genomic-scale fixed widths
        bt = [[f"chr{j + 1}", gen.fixed_edges(int(rng.integers(1, 12)) * w_ + int(rng.integers(0, w_)) + 1, w_)]
              for j in range(int(rng.integers(1, 5)))]
        fam = "genomic_scale_fixed"
    n = gen.bt_nbins(bt)
    symm = bool(rng.random() < 0.6)
    form = FORMS[int(rng.integers(len(FORMS)))]
    pat = gen.PATTERNS[int(rng.integers(len(gen.PATTERNS)))]
    cdt = COUNT_DTYPES[int(rng.integers(len(COUNT_DTYPES)))]
    if form == "arrayloader":
        symm = True
    isfloat = cdt in ("float32", "float64")
    values = "dyadic" if isfloat else "int"
    zeros = 0.25 if rng.random() < 0.2 and form != "arrayloader" else 0.0     # a dense array cannot express a stored 0
    P = gen.gen_pixels(rng, n, symm, pat, values=values, vmax=50, zeros=zeros)
    nextra = int(rng.integers(0, 3)) if form != "arrayloader" else 0
    extra, extra_dt = {}, {}
    for e in range(nextra):
        name = ["score", "w2", "frac"][e]
        dt = [None, "float32", "int16", "int64", "float64"][int(rng.integers(5))]
        if dt in ("int16", "int64"):
            extra[name] = {k: int(rng.integers(-100, 100)) for k in P}
        else:
            extra[name] = {k: float(int(rng.integers(-400, 400))) / 8.0 for k in P}
        extra_dt[name] = dt
    return dict(zeros=bool(zeros), fam=fam, bt=bt, n=n, symm=symm, form=form, pat=pat, cdt=cdt, P=P, extra=extra, extra_dt=extra_dt,
                h5opts=H5OPTS[int(rng.integers(len(H5OPTS)))],
                metadata=METADATA[int(rng.integers(len(METADATA)))],
                assembly=ASSEMBLIES[int(rng.integers(len(ASSEMBLIES)))],
                nested=bool(rng.random() < 0.3), store=["path", "uri", "handle"][int(rng.integers(3))],
                bins_extra=bool(rng.random() < 0.25))


def one_case(ctx, cid, rng, idx):
    import cooler
    from cooler.create import ArrayLoader

    K = make_case(rng, idx)
    bt, n, symm, form, P, extra = K["bt"], K["n"], K["symm"], K["form"], K["P"], K["extra"]
    desc = {k: K[k] for k in ("fam", "bt", "symm", "form", "pat", "cdt", "extra_dt", "h5opts", "metadata",
                              "assembly", "nested", "store")}
    desc["pixels"] = sorted((i, j, v) for (i, j), v in P.items())[:200]
    path = ctx.path()
    group = "/a/b" if K["nested"] else "/"
    uri = path + ("::" + group if K["nested"] else "")
    with ctx.case(cid, desc) as c:
        c.feature(f"form:{form}", f"mode:{'symm' if symm else 'square'}", f"family:{K['fam']}",
                  f"pattern:{K['pat']}", f"count-dtype:{K['cdt']}", f"extra-columns:{len(extra)}",
                  f"h5opts:{json.dumps(K['h5opts'])}", f"dest:{'nested' if K['nested'] else 'root'}",
                  f"store:{K['store']}")
        if K["zeros"] and any(v == 0 for v in P.values()):
            c.feature("pixels:stored-zero-values")
        bins = gen.bt_frame(bt, categorical=bool(rng.random() < 0.5))
        blab = int(rng.integers(5))
        if blab in (1, 2, 3):
            bins = bins.set_axis({1: rng.permutation(len(bins)) + 3, 2: np.zeros(len(bins), dtype=int),
                                  3: [f"b{k_}" for k_ in range(len(bins))]}[blab], axis=0)
        if K["bins_extra"]:
            bins["gc"] = np.round(rng.random(n), 3)
            bins["cov"] = rng.integers(0, 100, size=n)
        cdt_np = np.dtype(K["cdt"]) if K["cdt"] else None
        df = gen.pixels_frame(P, extra, count_dtype=cdt_np if cdt_np is not None else np.int64)
        for name, dt in K["extra_dt"].items():
            if dt:
                df[name] = df[name].astype(dt)
        columns, dtypes = None, None
        if extra:
            columns = ["count"] + list(extra)
        if K["cdt"] or any(K["extra_dt"].values()):
            dtypes = {}
            if K["cdt"]:
                dtypes["count"] = cdt_np
            for name, dt in K["extra_dt"].items():
                if dt:
                    dtypes[name] = np.dtype(dt)
        kw = dict(columns=columns, dtypes=dtypes, metadata=K["metadata"], assembly=K["assembly"],
                  symmetric_upper=symm, h5opts=K["h5opts"], mode="w")
        inp = df.copy()
        idt = [None, None, np.int32, np.int16, np.int8, np.uint8, np.uint16, np.uint32][int(rng.integers(8))]
        if idt is not None and n <= np.iinfo(idt).max and form != "arrayloader":
            inp["bin1_id"] = inp["bin1_id"].astype(idt)
            inp["bin2_id"] = inp["bin2_id"].astype(idt)
            c.feature(f"input-id-dtype:{np.dtype(idt).name}")
        relabel = int(rng.integers(4))
        if form == "df_sorted":
            pixels = inp
        elif form == "df_shuffled":
            pixels = inp.iloc[rng.permutation(len(inp))].reset_index(drop=True)
        if form in ("df_sorted", "df_shuffled") and relabel and len(inp):
            # row labels of the caller's frame carry no meaning: shuffled labels, repeated labels, string labels
            lab = {1: rng.permutation(len(pixels)) + 5, 2: np.zeros(len(pixels), dtype=int),
                   3: [f"r{k_}" for k_ in range(len(pixels))]}[relabel]
            pixels = pixels.set_axis(lab, axis=0)
            c.feature("input-frame:non-default-row-labels")
        elif form == "dict":
            perm = rng.permutation(len(inp)) if rng.random() < 0.5 else np.arange(len(inp))
            pixels = {col: inp[col].to_numpy()[perm] for col in inp.columns}
        elif form in ("chunks_df", "chunks_dict"):
            mode = int(rng.integers(5))
            if mode == 0:
                cuts = [0, len(inp)]
            elif mode == 1:
                cuts = list(range(len(inp) + 1))              # size-1 chunks
            elif mode == 2:
                cuts = [0, 0] + gen.random_cuts(rng, len(inp), 5)[1:] + [len(inp)]   # leading+trailing empty
            else:
                cuts = gen.random_cuts(rng, len(inp), 7)
            if len(inp) == 0:
                cuts = [0] * int(rng.integers(2, 4))
            chunks = gen.chunk_frames(inp, cuts)
            if chunks and len(chunks[0]) == 0 and len(inp):
                c.feature("chunks:leading-empty")
            if chunks and len(chunks[-1]) == 0 and len(inp):
                c.feature("chunks:trailing-empty")
            if len(chunks) > 1 and all(len(x) == 0 for x in chunks):
                c.feature("chunks:all-empty")
            if any(len(x) == 1 for x in chunks):
                c.feature("chunks:size-1")
            es = int(rng.integers(4))
            if es in (1, 2) and len(inp):
                # ensure_sorted=True: rows inside a chunk may come in any order (chunks still partition the
                # sorted table): fully shuffled, or rows in order but columns shuffled within each row
                kw["ensure_sorted"] = True
                if rng.random() < 0.4:
                    # the input is known to be valid: every per-chunk check switched off, only the sort requested
                    kw.update(boundscheck=False, dupcheck=False, triucheck=False)
                    c.feature("ensure_sorted:with-all-checks-off")
                newc = []
                for ch in chunks:
                    if es == 1:
                        ch = ch.iloc[rng.permutation(len(ch))]
                        c.feature("ensure_sorted:shuffled-chunk")
                    else:
                        key = rng.random(len(ch))
                        ch = ch.assign(_k=key).sort_values(["bin1_id", "_k"]).drop(columns="_k")
                        c.feature("ensure_sorted:rows-ordered-columns-shuffled")
                    newc.append(ch.reset_index(drop=True))
                chunks = newc
            if form == "chunks_dict":
                chunks = [{col: ch[col].to_numpy() for col in ch.columns} for ch in chunks]
            pixels = iter(chunks) if rng.random() < 0.5 else (ch for ch in chunks)
            kw["ordered"] = True
        elif form == "arrayloader":
            arr = model.dense(P, n, True, dtype=cdt_np if cdt_np is not None else np.int64)
            cs = int(rng.integers(1, n + 2))
            c.feature("arrayloader:chunk=1" if cs == 1 else ("arrayloader:chunk>n" if cs > n else "arrayloader:chunk-mid"))
            pixels = ArrayLoader(bins, arr, cs)
            kw["ordered"] = True
            if rng.random() < 0.5:
                # history: the same loader object already fed another creation (a second file from one loader)
                cooler.create_cooler(ctx.path(), bins, pixels, **{**kw, **({} if symm else {"triucheck": False})})
                c.feature("history:loader-object-reused")
        if not symm:
            kw["triucheck"] = False
        cooler.create_cooler(uri, bins, pixels, **kw)

        # ---------------- read back
        fh = None
        if K["store"] == "path" and not K["nested"]:
            clr = cooler.Cooler(path)
        elif K["store"] == "handle":
            fh = h5py.File(path, "r")
            clr = cooler.Cooler(fh[group])
        else:
            clr = cooler.Cooler(path + "::" + group)
        try:
            keys = sorted(P)
            pt = clr.pixels()[:]
            want_cols = ["bin1_id", "bin2_id", "count"] + list(extra)
            c.check(list(pt.columns) == want_cols, "pixel-table-columns",
                    f"pixel columns {list(pt.columns)} != {want_cols}")
            got_keys = list(zip(pt["bin1_id"].tolist(), pt["bin2_id"].tolist()))
            if not c.check(got_keys == keys, "pixel-table-rows-differ",
                           "pixel table (bin1,bin2) rows differ from the sorted input",
                           lambda: {"got": got_keys[:30], "want": keys[:30]}):
                return
            c.check(list(pt.index) == list(range(len(keys))), "pixel-table-index", "pixel table index != 0..nnz-1")
            for col, src in [("count", P)] + [(nm, extra[nm]) for nm in extra]:
                want = [src[k] for k in keys]
                got = pt[col].tolist()
                c.check(got == want, f"pixel-values-differ:{'count' if col == 'count' else 'extra'}",
                        f"column {col} differs from input", lambda: {"got": got[:30], "want": want[:30]})
                declared = (K["cdt"] if col == "count" else K["extra_dt"][col])
                default = "int32" if col == "count" else "float64"
                if declared:
                    c.check(str(pt[col].dtype) == declared, "pixel-dtype-not-as-declared",
                            f"column {col} stored as {pt[col].dtype}, declared {declared}")
                else:       # no dtype declared: only the kind of the documented default is required
                    c.check(pt[col].dtype.kind in ("iu" if col == "count" else "f"), "pixel-dtype-kind-unexpected",
                            f"column {col} stored as {pt[col].dtype} (documented default {default})")
                # full matrix views
                D = model.dense(src, n, symm)
                m = clr.matrix(balance=False, field=col)[:, :]
                c.check(m.shape == (n, n) and np.array_equal(m, D), f"dense-matrix-differs:{'symm' if symm else 'square'}",
                        f"dense full matrix (field {col}) != Dense(P, mode)", lambda: {"got": m, "want": D})
                sp = clr.matrix(balance=False, field=col, sparse=True)[:, :]
                coords = list(zip(sp.row.tolist(), sp.col.tolist()))
                c.check(len(set(coords)) == len(coords), "sparse-matrix-duplicate-coordinate",
                        "sparse full matrix repeats a coordinate")
                c.check(np.array_equal(sp.toarray(), D), "sparse-matrix-differs", f"sparse full matrix (field {col}) differs")
                ap = clr.matrix(balance=False, field=col, as_pixels=True)[:, :]
                c.check(list(zip(ap["bin1_id"].tolist(), ap["bin2_id"].tolist(), ap[col].tolist()))
                        == [(k[0], k[1], src[k]) for k in keys], "as-pixels-matrix-differs",
                        f"as_pixels full matrix (field {col}) differs")
            info = clr.info
            c.check(info["nnz"] == len(P), "info-nnz", f"nnz={info['nnz']} but {len(P)} pixels given")
            wantmeta = {} if K["metadata"] is None else K["metadata"]
            c.check(info.get("metadata") == wantmeta and type(info.get("metadata")) is type(wantmeta), "metadata-changed",
                    "info['metadata'] != the document given", lambda: {"got": info.get("metadata"), "want": wantmeta})
            c.check(info.get("genome-assembly") == ("unknown" if K["assembly"] is None else K["assembly"]), "assembly-changed",
                    f"genome-assembly={info.get('genome-assembly')!r}, given {K['assembly']!r}")
            c.check(clr.storage_mode == ("symmetric-upper" if symm else "square"), "storage-mode-changed",
                    f"storage mode {clr.storage_mode}")
            tot = sum(P.values())
            c.check(float(info["sum"]) == float(tot), "info-sum", f"sum={info['sum']} but counts total {tot}")
            # bin table comes back too
            bb = clr.bins()[:]
            c.check(list(zip(bb["chrom"].astype(str), bb["start"].tolist(), bb["end"].tolist())) == gen.bt_bins_list(bt),
                    "bin-table-differs", "bins()[:] differs from the given table")
            if K["bins_extra"]:
                c.check(np.array_equal(bb["gc"].to_numpy(), bins["gc"].to_numpy())
                        and bb["cov"].tolist() == bins["cov"].tolist(), "bin-extra-columns-differ",
                        "extra bin columns differ")
                c.feature("bins:extra-columns")
        finally:
            if fh is not None:
                fh.close()
        if P:
            c.nontrivial(repr(bt), repr(sorted(P.items())), symm, form, K["cdt"], repr(K["extra_dt"]), repr(K["h5opts"]))
        ctx.sample({k: desc[k] for k in ("fam", "symm", "form", "pat", "cdt", "extra_dt", "h5opts", "nested", "store")}
                   | {"nbins": n, "nnz": len(P)})
    if os.path.exists(path):
        os.remove(path)
