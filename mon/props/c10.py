"""C10 Balancing weights flatten the marginals of the filtered matrix."""
from __future__ import annotations

import os
import warnings

import numpy as np

from .. import gen, ic, probes
from ..build import make_cooler

RULE = ("generated symmetric coolers (1-4 chromosomes, 6-40 bins, sparse to dense, empty rows, isolated bins, integer and "
        "float counts) x option vectors (mode genome-wide/cis/trans x ignore_diags 0-3 x min_nnz x min_count x mad_max x "
        "blacklist none/few/whole chromosome x tol x max_iters x x0 none/positive/with zeros and NaNs x rescale x chunk "
        "size) through the real balance_cooler; when stats report convergence: (1) NaN set == the documented filters' set "
        "(dense reference, tie band on the MAD cutoff), all other weights finite > 0; (2) flatness of the row sums of "
        "w (x) w o A over retained bins with data, evaluated on cooler's OWN returned weights and the generated matrix: "
        "var(r) <= kappa*tol/scale^2 and |mean r - 1| <= sqrt(kappa*tol)/scale (rescale), per chromosome in cis mode, "
        "kappa=4. Non-trivial: converged and >= 3 retained bins; distinct = (cooler, option vector)")
ASSUMPTIONS = ["a stored diagonal pixel contributes twice to its bin's marginal (documented behaviour of the procedure)",
               "bins within 1e-9 (relative) of the MAD cutoff and runs whose final var is within 1e-6 of tol are tie-band "
               "inconclusive", "trans-only mode: the literal clause is a known finding; the c-weighted invariant the code "
               "maintains is checked instead"]
MIN_NONTRIVIAL = {"quick": 70, "thorough": 700}
REQUIRED_FEATURES = ["mode:gw", "mode:cis", "mode:trans", "converged", "x0:with-zeros-nans", "blacklist:whole-chromosome", "blacklist:cli-bed-file", "blacklist:bed-interval-starts-on-bin-edge",
                     "rescale:off", "mask:min_nnz", "mask:mad_max", "counts:float", "pixels:stored-zero-counts",
                     "store:rebalance-existing-column"]
KAPPA = 4.0


def plan(tier, seed):
    n = 16 if tier == "quick" else 48
    per = 30 if tier == "quick" else 250
    return [{"kind": "bal", "sub": i, "cases": per} for i in range(n)]


def run(ctx, shard):
    probes.activate(ctx)
    warnings.simplefilter("ignore")
    rng0 = ctx.rng("plan", shard["sub"])
    for i in range(shard["cases"]):
        seedk = int(rng0.integers(2**31))
        rng = ctx.rng("case", shard["sub"], i, seedk)
        cid = f"b:{shard['sub']}:{i}"
        if ctx.want(cid):
            one_case(ctx, cid, rng, shard["sub"] * 100 + i)


def gen_balance_cooler(rng, idx, max_bins=40):
    nch = int(rng.integers(1, 5))
    sizes = [int(rng.integers(3, max(4, max_bins // nch) + 1)) for _ in range(nch)]
    if idx % 3 == 1:
        nch, sizes = max(nch, 2), (sizes + [int(rng.integers(3, 10))])[: max(nch, 2)]
    bt = [[f"chr{i + 1}", list(range(0, s * 100 + 1, 100))] for i, s in enumerate(sizes)]
    n = sum(sizes)
    pat = ["dense", "sparse70", "sparse30", "emptyrows", "isolated", "dense", "sparse70"][int(rng.integers(7))]
    isfloat = bool(rng.random() < 0.3)
    M = gen.gen_pixels(rng, n, True, pat, values="int", vmax=8)
    P = {}
    for (i, j) in M:
        base = 400.0 / (1.0 + abs(i - j)) ** 0.8 if True else 1.0
        v = base * rng.uniform(0.5, 1.5) * rng.uniform(0.6, 1.4)
        P[(i, j)] = round(v, 3) + 0.001 if isfloat else int(v) + 1
    if idx % 4 == 2 and P:
        # explicitly stored zero-count pixels (valid; e.g. a cooler loaded from a dense dump): they are
        # not "non-zeros" for the min_nnz filter and carry no signal
        keys = sorted(P)
        for k_ in rng.permutation(len(keys))[: max(1, len(keys) // 3)]:
            P[keys[int(k_)]] = 0.0 if isfloat else 0
    return bt, n, P, isfloat, pat


def gen_options(rng, n, chrom_of, idx):
    mode = ["gw", "cis", "trans"][idx % 3]
    nch = int(chrom_of[-1]) + 1
    if mode in ("trans",) and nch < 2:
        mode = "gw"
    o = {"cis_only": mode == "cis", "trans_only": mode == "trans",
         "ignore_diags": int([0, 1, 2, 3][int(rng.integers(4))]),
         "min_nnz": int([0, 1, 3, 10][int(rng.integers(4))]),
         "min_count": int([0, 0, 5, 50][int(rng.integers(4))]),
         "mad_max": int([0, 1, 3, 5][int(rng.integers(4))]),
         "tol": float([1e-3, 1e-5, 1e-8][int(rng.integers(3))]),
         "max_iters": int([1, 5, 500, 500, 200, 500][int(rng.integers(6))]),
         "rescale_marginals": bool(rng.random() < 0.75)}
    bl = int(rng.integers(4))
    if bl == 1:
        o["blacklist"] = sorted(set(rng.integers(0, n, size=int(rng.integers(1, 4))).tolist()))
    elif bl == 2 and nch > 1:
        ci = int(rng.integers(nch))
        o["blacklist"] = np.flatnonzero(chrom_of == ci).tolist()
    x = int(rng.integers(4))
    if x == 1:
        o["x0"] = rng.uniform(0.5, 2.0, size=n)
    elif x == 2:
        x0 = rng.uniform(0.5, 2.0, size=n)
        x0[rng.random(n) < 0.15] = 0.0
        x0[rng.random(n) < 0.15] = np.nan
        o["x0"] = x0
    return mode, o


def work_cap(nnz, opts, rng):
    """chunk size such that ceil(nnz/chunksize) * max_iters stays <= ~2000 fetches."""
    it = min(opts["max_iters"], 120)
    choices = [c for c in (1, 2, 3, 7, max(nnz // 3, 1), max(nnz - 1, 1), max((nnz - 1) // 2, 1), max(nnz, 1), nnz + 1, 10**7, None)
               if c is None or (-(-nnz // c)) * it <= 700]
    return choices[int(rng.integers(len(choices)))]


def flatness(c, label, A, w, tol, scale, rescale, lo, hi, mode):
    """Row sums of w(x)w o A over retained bins with data in [lo,hi). Returns ratio var/bound."""
    ww = np.nan_to_num(w, nan=0.0)
    r = ((A * ww[None, :]).sum(axis=1) * ww)[lo:hi]
    keep = np.isfinite(w[lo:hi]) & (r != 0)
    if keep.sum() < 2 or not np.isfinite(scale) or scale == 0:
        return None
    r = r[keep]
    if rescale:
        vbound = KAPPA * tol / scale**2
        mbound = np.sqrt(KAPPA * tol) / scale
        mean_target = 1.0
    else:
        vbound = KAPPA * tol
        mbound = np.sqrt(KAPPA * tol)
        mean_target = scale
    ratio = float(np.var(r) / vbound) if vbound > 0 else 0.0
    okv = np.var(r) <= vbound * (1 + 1e-9) + 1e-300
    okm = abs(np.mean(r) - mean_target) <= mbound * (1 + 1e-9) + 1e-12 * max(abs(mean_target), 1)
    if not okv:
        c.fail(f"marginals-not-flat:{mode}", f"[{label}] converged, but var of the balanced row sums {np.var(r):.3g} exceeds "
               f"{KAPPA}*tol/scale^2 = {vbound:.3g}", {"row_sums": r[:30], "scale": scale})
    if not okm:
        c.fail(f"marginals-mean-off:{mode}:{'rescaled' if rescale else 'unscaled'}",
               f"[{label}] converged, but mean balanced row sum {np.mean(r):.6g} is not {mean_target:.6g} within {mbound:.3g}",
               {"row_sums": r[:30], "scale": scale})
    return ratio


def one_case(ctx, cid, rng, idx):
    import cooler

    bt, n, P, isfloat, pat = gen_balance_cooler(rng, idx)
    chrom_of = gen.bt_chrom_of(bt)
    mode, opts = gen_options(rng, n, chrom_of, idx)
    path = ctx.path()
    group = "/" if idx % 4 else "/resolutions/100"
    uri = path + ("::" + group if group != "/" else "")
    idt = [None, None, np.int32, np.uint32, np.uint16][idx % 5]         # stored bin-id dtype (a creation option)
    dts = {"bin1_id": idt, "bin2_id": idt} if idt else {}
    if isfloat:
        dts["count"] = np.float64
    make_cooler(uri, bt, P, dtypes=dts or None)
    clr = cooler.Cooler(uri)
    hfile = None
    on_handle = False
    if group != "/" and idx % 5 != 3 and idx % 2 == 0:
        on_handle = True
        import h5py
        hfile = h5py.File(path, "r")
        clr = cooler.Cooler(hfile[group])           # the object wraps an open Group handle instead of a path
    cs = work_cap(len(P), opts, rng)
    desc = {"bt": [[c_, len(e) - 1] for c_, e in bt], "pattern": pat, "float_counts": isfloat, "mode": mode,
            "options": {k: v for k, v in opts.items()}, "chunksize": cs, "nnz": len(P),
            "pixels": sorted((a, b, v) for (a, b), v in P.items())[:200]}
    with ctx.case(cid, desc) as c:
        if on_handle:
            c.feature("cooler-object:on-open-group-handle")
        c.feature(f"mode:{mode}", "location:root" if group == "/" else "location:nested-group",
                  f"stored-bin-id-dtype:{np.dtype(idt).name if idt else 'int64'}")
        if isfloat:
            c.feature("counts:float")
        if not opts["rescale_marginals"]:
            c.feature("rescale:off")
        if "x0" in opts:
            c.feature("x0:with-zeros-nans" if np.isnan(opts["x0"]).any() else "x0:positive")
        if "blacklist" in opts:
            c.feature("blacklist:whole-chromosome" if len(opts["blacklist"]) > 3 else "blacklist:few")
        kw = dict(opts)
        if "x0" in kw:
            x0_before = kw["x0"].copy()
        stored_twice = bool(idx % 5 == 3)
        if stored_twice:
            # history: the column already exists from an earlier run with other settings
            import h5py
            c.feature("store:rebalance-existing-column")
            cooler.balance_cooler(clr, store=True, store_name="weight", ignore_diags=1, min_nnz=0, mad_max=0, max_iters=20)
            with h5py.File(path, "r") as f:
                first = f[group]["bins/weight"][:]
            kw["store"] = True
            kw["store_name"] = "weight"
        if any(v == 0 for v in P.values()):
            c.feature("pixels:stored-zero-counts")
        bias, stats = cooler.balance_cooler(clr, chunksize=cs, **kw)
        if hfile is not None:
            hfile.close()
            hfile = None
        if stored_twice:
            with h5py.File(path, "r") as f:
                stored = f[group]["bins/weight"][:]
                sattrs = dict(f[group]["bins/weight"].attrs)
            c.check(np.array_equal(stored, bias, equal_nan=True), "stored-column-differs-from-returned-weights",
                    "after balance_cooler(store=True) over an existing column, bins/weight is not the returned weight vector",
                    {"stored": stored, "returned": bias, "previous_column": first})
            c.check(bool(np.all(np.asarray(sattrs.get("converged")) == np.asarray(stats["converged"])))
                    and bool(sattrs.get("cis_only") == stats["cis_only"]), "stored-column-attrs-differ",
                    "attributes of the stored column do not describe the run that produced it")
        ref = ic.ref_ic(P, n, chrom_of, **{k: (v.copy() if isinstance(v, np.ndarray) else v) for k, v in opts.items()})
        conv = bool(np.all(stats["converged"]))
        var = np.atleast_1d(np.asarray(stats["var"], dtype=float))
        tie_var = bool(np.any(np.abs(var - opts["tol"]) <= 1e-6 * opts["tol"]))
        if tie_var:
            c.inconclusive("final variance within 1e-6 of tol (tie band)")
            return
        if not conv:
            c.feature("not-converged")
            return
        c.feature("converged")
        # ---------------- (1) mask
        got_nan = np.isnan(bias)
        want_nan = np.isnan(ref["bias"])
        undecided = np.zeros(n, dtype=bool)
        undecided[ref["ties"]] = True
        if ref["ties"]:
            c.feature("tie-band:mad-cutoff")
        ref_conv = bool(np.all(ref["converged"]))
        if not ref_conv:
            # cooler claims convergence, the dense reference of the same procedure does not (outside the
            # tie band): the mask clause is skipped, the flatness clause below decides on cooler's weights
            c.feature("reference-disagrees-on-convergence")
            want_nan = got_nan
        diff = (got_nan != want_nan) & ~undecided
        if undecided.any() and (got_nan != want_nan).any():
            c.inconclusive("mask differs only/also on bins inside the MAD tie band")
            return
        if diff.any():
            k = int(np.flatnonzero(diff)[0])
            reason = "kept-but-should-be-masked" if want_nan[k] else "masked-but-should-be-kept"
            which = []
            if opts["min_nnz"]:
                which.append("min_nnz")
            if opts["mad_max"]:
                which.append("mad_max")
            if opts["min_count"]:
                which.append("min_count")
            if "blacklist" in opts:
                which.append("blacklist")
            if "x0" in opts:
                which.append("x0")
            c.fail(f"nan-set-differs:{reason}:{mode}", f"bin {k}: cooler weight {bias[k]}, documented filters give "
                   f"{ref['bias'][k]} (active filters: {which})", {"got": bias, "ref": ref["bias"]})
            return
        if opts["min_nnz"]:
            c.feature("mask:min_nnz")
        if opts["mad_max"]:
            c.feature("mask:mad_max")
        if "blacklist" in opts and "x0" not in opts and opts["rescale_marginals"] and opts["blacklist"]:
            # the same run spelled `cooler balance --blacklist BED`: the intervals overlap exactly the blacklisted bins
            from click.testing import CliRunner
            from cooler.cli import cli
            import h5py
            lines = gen.blacklist_bed(rng, bt, opts["blacklist"])
            bf = path + ".bl.bed"
            c.feature("blacklist:bed-first-line:" + gen.write_blacklist_bed(rng, bf, lines))
            args = ["balance", uri, "--name", "wbl", "--force", "--blacklist", bf,
                    "--ignore-diags", str(opts["ignore_diags"]), "--mad-max", str(opts["mad_max"]),
                    "--min-nnz", str(opts["min_nnz"]), "--min-count", str(opts["min_count"]),
                    "--tol", repr(opts["tol"]), "--max-iters", str(opts["max_iters"])]
            args += ["-c", str(cs)] if cs is not None else []
            args += {"cis": ["--cis-only"], "trans": ["--trans-only"], "gw": []}[mode]
            r = CliRunner().invoke(cli, args)
            os.remove(bf)
            if r.exit_code != 0:
                raise (r.exception or RuntimeError(r.output[-300:]))
            with h5py.File(path, "r") as f:
                wbl = f[group]["bins/wbl"][:]
            c.feature("blacklist:cli-bed-file", "blacklist:bed-interval-starts-on-bin-edge"
                      if any(b in {x[1] for x in gen.bt_bins_list(bt) if x[0] == a} and b > 0 for a, b, e in lines)
                      else "blacklist:bed-interior")
            bad = np.flatnonzero(np.isnan(wbl) != got_nan)
            c.check(bad.size == 0, f"nan-set-differs:cli-blacklist-bed:{mode}",
                    f"`cooler balance --blacklist` with intervals {lines[:6]} masks a different bin set than the same "
                    f"blacklist given as bin ids (first differing bin {bad[:1].tolist()})",
                    lambda: {"bed": lines, "cli_nan": np.flatnonzero(np.isnan(wbl)).tolist(),
                             "api_nan": np.flatnonzero(got_nan).tolist()})
        fin = bias[~got_nan]
        c.check(bool(np.all(np.isfinite(fin)) and np.all(fin > 0)), "weight-not-finite-positive",
                "an unmasked bin has a non-finite or non-positive weight", {"weights": bias})
        # ---------------- (2) flatness on cooler's own weights
        offs = ref["offsets"]
        ratios = []
        resc = opts["rescale_marginals"]
        if mode == "cis":
            A = ic.filtered(P, n, chrom_of, cis_only=True, ignore_diags=opts["ignore_diags"])
            scales = np.atleast_1d(np.asarray(stats["scale"], dtype=float))
            for ci, (lo, hi) in enumerate(zip(offs[:-1], offs[1:])):
                sub = np.full(n, np.nan)
                sub[lo:hi] = bias[lo:hi]
                r = flatness(c, f"cis chr{ci + 1}", A, sub, opts["tol"], scales[ci], resc, lo, hi, "cis")
                if r is not None:
                    ratios.append(r)
        elif mode == "gw":
            A = ic.filtered(P, n, chrom_of, ignore_diags=opts["ignore_diags"])
            r = flatness(c, "genome-wide", A, bias, opts["tol"], float(stats["scale"]), resc, 0, n, "gw")
            if r is not None:
                ratios.append(r)
        else:
            A = ic.filtered(P, n, chrom_of, trans_only=True, ignore_diags=opts["ignore_diags"])
            # literal clause (known finding: trans sweeps flatten the marginals of w*c, return w)
            ww = np.nan_to_num(bias, nan=0.0)
            r_lit = (A * ww[None, :]).sum(axis=1) * ww
            keep = np.isfinite(bias) & (r_lit != 0)
            scale = float(stats["scale"])
            if keep.sum() >= 2 and np.isfinite(scale) and scale != 0:
                rl = r_lit[keep]
                tgt = 1.0 if resc else scale
                vb = KAPPA * opts["tol"] / (scale**2 if resc else 1.0)
                mb = np.sqrt(KAPPA * opts["tol"]) / (scale if resc else 1.0)
                if not (np.var(rl) <= vb and abs(np.mean(rl) - tgt) <= mb):
                    c.fail("trans_only-cweights", f"trans-only: row sums of w(x)w o A_trans are {np.min(rl):.3g}..{np.max(rl):.3g} "
                           f"(mean {np.mean(rl):.3g}), not flat at {tgt:.3g}", {"row_sums": rl[:20]})
            # the invariant the code does maintain: c-weighted marginals flat (and 1 after rescale)
            with np.errstate(all="ignore"):
                cw = 1.0 / np.concatenate([[1 - (hi - lo) / n] * (hi - lo) for lo, hi in zip(offs[:-1], offs[1:])])
            r = flatness(c, "trans c-weighted", A, bias * cw, opts["tol"], scale, resc, 0, n, "trans-cweighted")
            if r is not None:
                ratios.append(r)
        if ratios:
            ctx.maxstat("max_flatness_ratio_var_over_bound", float(max(ratios)))
        retained = int((~got_nan).sum())
        if retained >= 3:
            c.nontrivial(repr(desc["bt"]), repr(sorted(P.items())), mode, repr({k: (v.tolist() if isinstance(v, np.ndarray) else v) for k, v in opts.items()}))
        ctx.sample({"mode": mode, "nbins": n, "nnz": len(P), "options": {k: (("array", len(v)) if isinstance(v, (list, np.ndarray)) else v) for k, v in opts.items()},
                    "converged": conv, "retained_bins": retained, "flatness_ratio": max(ratios) if ratios else None}, limit=6)
    if hfile is not None:
        hfile.close()
    os.remove(path)
