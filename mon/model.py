"""Reference models (the trusted base). Tiny, deterministic, no cooler imports.

Each has hand-worked examples in selftest() which the setup command runs.
"""
from __future__ import annotations

from decimal import Decimal

import numpy as np

from .gen import bt_bins_list, bt_offsets, fixed_edges


# ------------------------------------------------------------------ matrices
def dense(P, n, symm, dtype=float):
    D = np.zeros((n, n), dtype=dtype)
    for (i, j), v in P.items():
        D[i, j] = v
        if symm:
            D[j, i] = v
    return D


def fold(records, agg="sum"):
    """records: iterable of ((i,j), v) -> {(i,j): aggregated}"""
    out = {}
    cnt = {}
    for k, v in records:
        if k in out:
            if agg == "sum" or agg == "mean":
                out[k] = out[k] + v
            elif agg == "max":
                out[k] = max(out[k], v)
            elif agg == "min":
                out[k] = min(out[k], v)
            elif agg == "first":
                pass
            elif agg == "last":
                out[k] = v
            else:
                raise ValueError(agg)
            cnt[k] += 1
        else:
            out[k] = v
            cnt[k] = 1
    if agg == "mean":
        out = {k: out[k] / cnt[k] for k in out}
    return out


# ------------------------------------------------------------------ bins
def overlap_bins(bt, chrom, s, e):
    """ids of bins of `chrom` with start<e and end>s (non-empty range) by linear scan."""
    ids = []
    for bid, (c, a, b) in enumerate(bt_bins_list(bt)):
        if c == chrom and a < e and b > s:
            ids.append(bid)
    return ids


def bin_of(bt, chrom, pos):
    for bid, (c, a, b) in enumerate(bt_bins_list(bt)):
        if c == chrom and a <= pos < b:
            return bid
    return None


def chrom_bin_range(bt, chrom):
    off = bt_offsets(bt)
    for ci, (c, _) in enumerate(bt):
        if c == chrom:
            return off[ci], off[ci + 1]
    raise KeyError(chrom)


def ref_binnify(chromsizes, b):
    """[(chrom, start, end)] for [(name, length)] and width b."""
    out = []
    for name, length in chromsizes:
        e = fixed_edges(length, b)
        out += [(name, x, y) for x, y in zip(e[:-1], e[1:])]
    return out


def conforms_fixed(bt, b):
    return all(list(e) == fixed_edges(e[-1], b) for _, e in bt)


def ref_coarsen_bt(bt, k):
    return [[c, list(e[:-1][::k]) + [e[-1]]] for c, e in bt]


def ref_coarsen_map(bt, k):
    """old bin id -> new bin id (index arithmetic only)."""
    old_off = bt_offsets(bt)
    new_off = bt_offsets(ref_coarsen_bt(bt, k))
    m = []
    for ci, (_, e) in enumerate(bt):
        for r in range(len(e) - 1):
            m.append(new_off[ci] + r // k)
    assert len(m) == old_off[-1]
    return m


def ref_coarsen(bt, P, k, agg="sum"):
    m = ref_coarsen_map(bt, k)
    return fold((((m[i], m[j]), v) for (i, j), v in sorted(P.items())), agg)


# ------------------------------------------------------------------ regions
UNITS = {"": 1, "K": 1000, "KB": 1000, "M": 10**6, "MB": 10**6, "G": 10**9, "GB": 10**9}


def ref_coord(tok):
    """Exact value of a coordinate token: digits with commas, optional decimal
    point, optional unit. Returns int or raises ValueError."""
    t = tok.strip().replace(",", "")
    i = 0
    while i < len(t) and (t[i].isdigit() or t[i] == "."):
        i += 1
    num, unit = t[:i], t[i:].strip().upper()
    if not num or num.count(".") > 1 or not any(ch.isdigit() for ch in num):
        raise ValueError(tok)
    if unit not in UNITS:
        raise ValueError(tok)
    if unit == "":
        if "." in num:
            raise ValueError(tok)
        return int(num)
    v = Decimal(num) * UNITS[unit]
    if v != v.to_integral_value():
        raise ValueError(tok)
    return int(v)


# ------------------------------------------------------------------ selftest
def selftest():
    bt = [["a", [0, 10, 20, 25]], ["b", [0, 7]]]
    assert overlap_bins(bt, "a", 0, 10) == [0]
    assert overlap_bins(bt, "a", 9, 11) == [0, 1]
    assert overlap_bins(bt, "a", 10, 10) == []
    assert overlap_bins(bt, "a", 20, 25) == [2]
    assert overlap_bins(bt, "b", 0, 7) == [3]
    assert bin_of(bt, "a", 24) == 2 and bin_of(bt, "a", 25) is None and bin_of(bt, "b", 0) == 3
    assert chrom_bin_range(bt, "b") == (3, 4)
    assert conforms_fixed(bt, 10) and not conforms_fixed([["a", [0, 10, 25]]], 10)
    assert conforms_fixed([["a", [0, 5]], ["b", [0, 10, 13]]], 10)
    assert ref_binnify([("x", 25), ("y", 10), ("z", 3)], 10) == [
        ("x", 0, 10), ("x", 10, 20), ("x", 20, 25), ("y", 0, 10), ("z", 0, 3)]
    assert ref_coarsen_bt(bt, 2) == [["a", [0, 20, 25]], ["b", [0, 7]]]
    assert ref_coarsen_map(bt, 2) == [0, 0, 1, 2]
    assert ref_coarsen_map(bt, 5) == [0, 0, 0, 1]
    P = {(0, 0): 1, (0, 1): 2, (1, 2): 3, (2, 3): 4, (3, 3): 5}
    assert ref_coarsen(bt, P, 2) == {(0, 0): 3, (0, 1): 3, (1, 2): 4, (2, 2): 5}
    assert ref_coarsen(bt, P, 2, "max") == {(0, 0): 2, (0, 1): 3, (1, 2): 4, (2, 2): 5}
    D = dense({(0, 1): 2, (1, 1): 3}, 2, True)
    assert D.tolist() == [[0, 2], [2, 3]]
    D = dense({(0, 1): 2, (1, 0): 5}, 2, False)
    assert D.tolist() == [[0, 2], [5, 0]]
    assert fold([((0, 0), 1), ((0, 0), 2), ((1, 0), 3)]) == {(0, 0): 3, (1, 0): 3}
    assert fold([((0, 0), 1.0), ((0, 0), 2.0)], "mean") == {(0, 0): 1.5}
    assert ref_coord("2.01k") == 2010 and ref_coord("1.005M") == 1005000
    assert ref_coord("1,000") == 1000 and ref_coord("0") == 0 and ref_coord("1.5kb") == 1500
    assert ref_coord("3G") == 3 * 10**9 and ref_coord("0.000001M") == 1
    for bad in ["1.5", "1.0005k", "abc", "5x", "", ".", "1..2k", "k"]:
        try:
            ref_coord(bad)
        except ValueError:
            continue
        raise AssertionError(bad)
    return True


if __name__ == "__main__":
    selftest()
    print("model selftest ok")
