"""Helpers that build input coolers through cooler itself (setup steps, not oracles)."""
from __future__ import annotations

import numpy as np

from . import gen


def make_cooler(uri, bt, P, symm=True, extra=None, dtypes=None, bins_extra=None, mode="w",
                count_dtype=None, **kw):
    """Create a cooler at `uri` from a bin table BT and a PixelDict P."""
    import cooler

    bins = gen.bt_frame(bt)
    if bins_extra:
        for k, v in bins_extra.items():
            bins[k] = v
    df = gen.pixels_frame(P, extra, count_dtype=count_dtype)
    columns = None
    if extra:
        columns = ["count"] + list(extra)
    if dtypes is None and count_dtype is not None:
        dtypes = {"count": count_dtype}
    if not symm:
        kw.setdefault("triucheck", False)
    cooler.create_cooler(uri, bins, df, columns=columns, dtypes=dtypes, ordered=True,
                         symmetric_upper=symm, mode=mode, **kw)
    return uri


def read_pixels_raw(path, group="/", cols=("count",)):
    import h5py

    with h5py.File(path, "r") as f:
        g = f[group]["pixels"]
        b1 = g["bin1_id"][:].tolist()
        b2 = g["bin2_id"][:].tolist()
        out = {c: g[c][:] for c in cols if c in g}
    return list(zip(b1, b2)), out
