"""Internal probes: postconditions attached from the harness to the real cooler
functions by rebinding module attributes (no repository edit).

Every probe counts its evaluations in ctx.probe_counts; a probe that is owned by
the property under check records failures as violations, any other probe records
`cross_property_alerts` (advisory).  Worker processes (fork) inherit the probes;
what they observe is appended to events.<pid>.jsonl in the shard's scratch dir
and merged by collect_worker_events().
"""
from __future__ import annotations

import functools
import glob
import json
import os
import time

import numpy as np

from . import h5state
from .core import jsonable

STATE = {"ctx": None, "main_pid": None, "owned": set(), "attached": []}


def activate(ctx, owned=()):
    STATE["ctx"] = ctx
    STATE["main_pid"] = os.getpid()
    STATE["owned"] = set(owned)


def detach_all():
    for mod, name, orig in reversed(STATE["attached"]):
        setattr(mod, name, orig)
    STATE["attached"].clear()


def _count(name, n=1):
    ctx = STATE["ctx"]
    if ctx is None:
        return
    if os.getpid() == STATE["main_pid"]:
        ctx.probe_counts[name] += n
    else:
        emit({"ev": "probe_count", "probe": name, "n": n})


def emit(rec):
    """Append an event to this process' event log."""
    ctx = STATE["ctx"]
    if ctx is None:
        return
    rec = dict(rec)
    rec["pid"] = os.getpid()
    rec["t"] = time.monotonic_ns()
    with open(os.path.join(ctx.tmp, f"events.{os.getpid()}.jsonl"), "a") as f:
        f.write(json.dumps(jsonable(rec)) + "\n")


def collect_worker_events(ctx, clear=True):
    evs = []
    for p in glob.glob(os.path.join(ctx.tmp, "events.*.jsonl")):
        with open(p) as f:
            for line in f:
                try:
                    evs.append(json.loads(line))
                except ValueError:
                    pass
        if clear:
            os.remove(p)
    evs.sort(key=lambda e: e.get("t", 0))
    for e in evs:
        if e.get("ev") == "probe_count":
            ctx.probe_counts[e["probe"]] += e["n"]
        elif e.get("ev") == "probe_fail":
            _record(ctx, e["probe"], e["prop"], e["key"], e["what"], e.get("witness"))
    return [e for e in evs if e.get("ev") not in ("probe_count", "probe_fail")]


def _record(ctx, probe, prop, key, what, witness):
    case = ctx.cur
    owned = probe in STATE["owned"]
    rec = {"key": f"{prop}/{key}", "what": f"[probe {probe}] {what}",
           "cid": case.cid if case else None, "desc": jsonable(case.desc) if case else None,
           "witness": jsonable(witness), "shard": ctx.shard}
    if owned and prop == ctx.prop:
        ctx.failures.append(rec)
        if case:
            case.failed = True
    else:
        ctx.alerts.append(rec)


def pfail(probe, prop, key, what, witness=None):
    ctx = STATE["ctx"]
    if ctx is None:
        return
    if os.getpid() != STATE["main_pid"]:
        emit({"ev": "probe_fail", "probe": probe, "prop": prop, "key": key, "what": what,
              "witness": witness})
    else:
        _record(ctx, probe, prop, key, what, witness)


def attach(targets, wrapper_factory):
    """targets: [(module, attrname), ...] all naming the same function object."""
    mod0, name0 = targets[0]
    orig = getattr(mod0, name0)
    if getattr(orig, "_verif_probe", False):
        return orig
    w = wrapper_factory(orig)
    w._verif_probe = True
    w._verif_orig = orig
    for mod, name in targets:
        cur = getattr(mod, name, None)
        if cur is orig:
            STATE["attached"].append((mod, name, cur))
            setattr(mod, name, w)
    return orig


# --------------------------------------------------------------------------
# individual probes
# --------------------------------------------------------------------------
def probe_rlencode():
    """util.rlencode: run-length postconditions + shadow re-execution with small blocks."""
    import cooler.util as U
    import cooler.create._create as C
    import cooler.create._ingest as I

    def factory(orig):
        @functools.wraps(orig)
        def w(array, chunksize=None):
            res = orig(array, chunksize)
            try:
                _count("rlencode")
                starts, lengths, values = res
                a = np.asarray(array[:]) if len(array) else np.asarray([])
                n = len(a)
                ok = True
                if n == 0:
                    ok = len(starts) == len(lengths) == len(values) == 0
                else:
                    ok = (len(starts) == len(lengths) == len(values) and len(starts) > 0
                          and starts[0] == 0 and bool(np.all(np.diff(starts) > 0))
                          and int(np.sum(lengths)) == n and bool(np.all(a[starts] == values))
                          and bool(np.all(values[1:] != values[:-1]))
                          and bool(np.all(np.diff(np.r_[starts, n]) == lengths)))
                if not ok:
                    pfail("rlencode", "C02", "probe:rlencode-postcondition",
                          "run-length encoding is not the run decomposition of its input",
                          {"n": n, "chunksize": chunksize, "starts": starts[:20], "values": values[:20]})
                elif n and n <= 200000:
                    for bs in (1, 2, 3, 7):
                        s2, l2, v2 = orig(a, bs)
                        _count("rlencode_shadow")
                        if not (np.array_equal(s2, starts) and np.array_equal(l2, lengths)
                                and np.array_equal(v2, values)):
                            pfail("rlencode", "C02", "probe:rlencode-block-dependence",
                                  f"rlencode with block size {bs} differs from block size {chunksize}",
                                  {"array": a[:60], "block": bs, "starts": s2[:20], "ref_starts": starts[:20]})
                            break
            except Exception as e:  # probe must never break the workload
                pfail("rlencode", "C02", "probe:rlencode-error", f"probe error {e!r}")
            return res
        return w

    attach([(U, "rlencode"), (C, "rlencode"), (I, "rlencode")], factory)


def probe_indexes():
    import cooler.create._create as C

    def f_pix(orig):
        @functools.wraps(orig)
        def w(grp, n_bins, nnz):
            res = orig(grp, n_bins, nnz)
            try:
                _count("index_pixels")
                b1 = np.asarray(grp["bin1_id"][:nnz]).astype(np.int64)
                ref = np.searchsorted(b1, np.arange(n_bins + 1), side="left")
                if len(res) != n_bins + 1 or not np.array_equal(np.asarray(res), ref):
                    pfail("index_pixels", "C02", "probe:index_pixels",
                          "bin1_offset is not searchsorted(bin1_id, 0..nbins)",
                          {"got": np.asarray(res)[:40], "ref": ref[:40]})
            except Exception as e:
                pfail("index_pixels", "C02", "probe:index_pixels-error", f"probe error {e!r}")
            return res
        return w

    def f_bins(orig):
        @functools.wraps(orig)
        def w(grp, n_chroms, n_bins):
            res = orig(grp, n_chroms, n_bins)
            try:
                _count("index_bins")
                c = np.asarray(grp["chrom"][:]).astype(np.int64)
                ref = np.searchsorted(c, np.arange(n_chroms + 1), side="left")
                if len(res) != n_chroms + 1 or not np.array_equal(np.asarray(res), ref):
                    pfail("index_bins", "C02", "probe:index_bins",
                          "chrom_offset is not searchsorted(bins/chrom, 0..nchroms)",
                          {"got": np.asarray(res), "ref": ref})
            except Exception as e:
                pfail("index_bins", "C02", "probe:index_bins-error", f"probe error {e!r}")
            return res
        return w

    attach([(C, "index_pixels")], f_pix)
    attach([(C, "index_bins")], f_bins)


def _create_aliases():
    import cooler.create._create as C
    import cooler.create as CP
    import cooler._reduce as R
    return [(C, "create"), (CP, "create"), (R, "create")]


def probe_create_exit(on_collection=None):
    """Exit hook on the real create(): every producer funnels through it. After a
    normal return the file is closed; re-open it with raw h5py and validate."""
    from cooler.util import parse_cooler_uri

    def factory(orig):
        @functools.wraps(orig)
        def w(cool_uri, bins, pixels, *args, **kwargs):
            res = orig(cool_uri, bins, pixels, *args, **kwargs)
            if os.getpid() != STATE["main_pid"]:
                return res
            try:
                _count("create_exit")
                path, group = parse_cooler_uri(cool_uri)
                symm = kwargs.get("symmetric_upper", True)
                import h5py
                with h5py.File(path, "r") as f:
                    problems = h5state.validate_collection(f[group], {"symmetric_upper": symm})
                    if on_collection is not None:
                        on_collection(cool_uri, f[group], problems)
                for key, msg in problems:
                    pfail("create_exit", "C02", key, f"{msg} (collection {group} written by create())",
                          {"uri": f"{os.path.basename(path)}::{group}"})
            except Exception as e:
                pfail("create_exit", "C02", "probe:create_exit-error", f"probe error {e!r}")
            return res
        return w

    attach(_create_aliases(), factory)


def probe_write_pixels():
    """Conservation: returned nnz == sum of chunk lengths seen, total == sum of counts seen."""
    import cooler.create._create as C

    def factory(orig):
        @functools.wraps(orig)
        def w(filepath, grouppath, columns, iterable, h5opts, lock):
            seen = {"n": 0, "tot": 0, "chunks": 0}

            def tap(it):
                for ch in it:
                    try:
                        col0 = list(columns)[0]
                        seen["n"] += len(ch[col0])
                        seen["chunks"] += 1
                        if "count" in ch:
                            seen["tot"] += np.asarray(ch["count"]).astype(object).sum() if len(ch["count"]) else 0
                    except Exception:
                        pass
                    yield ch
            res = orig(filepath, grouppath, columns, tap(iterable), h5opts, lock)
            try:
                _count("write_pixels")
                nnz, total = res
                if nnz != seen["n"]:
                    pfail("write_pixels", "C02", "probe:write_pixels-nnz",
                          f"write_pixels returned nnz={nnz} but consumed {seen['n']} records")
                if "count" in list(columns) and seen["chunks"] and float(total) != float(seen["tot"]):
                    pfail("write_pixels", "C02", "probe:write_pixels-total",
                          f"write_pixels returned total={total} but counts seen sum to {seen['tot']}")
            except Exception as e:
                pfail("write_pixels", "C02", "probe:write_pixels-error", f"probe error {e!r}")
            return res
        return w

    attach([(C, "write_pixels")], factory)


def probe_get_binsize():
    import cooler.util as U
    import cooler.create._create as C

    def factory(orig):
        @functools.wraps(orig)
        def w(bins):
            res = orig(bins)
            try:
                _count("get_binsize")
                if res is not None:
                    codes = bins["chrom"].astype(object).tolist()
                    # map to ints by first appearance
                    seen = {}
                    ids = [seen.setdefault(c, len(seen)) for c in codes]
                    if not h5state.conforms_fixed_arrays(ids, bins["start"].to_numpy(),
                                                         bins["end"].to_numpy(), int(res)):
                        pfail("get_binsize", "C20", "binsize-untrue:last-bin-longer",
                              f"get_binsize returned {res} for a table with a non-conforming bin",
                              {"bins": bins[["chrom", "start", "end"]].head(40)})
            except Exception as e:
                pfail("get_binsize", "C20", "probe:get_binsize-error", f"probe error {e!r}")
            return res
        return w

    attach([(U, "get_binsize"), (C, "get_binsize")], factory)


def probe_region_to_extent():
    import cooler.core._rangequery as RQ
    import cooler.core as CORE
    import cooler.api as API
    try:
        import cooler.cli.dump as DUMP
    except Exception:  # pragma: no cover
        DUMP = None

    def factory(orig):
        @functools.wraps(orig)
        def w(h5, chrom_ids, region, binsize=None):
            res = orig(h5, chrom_ids, region, binsize)
            try:
                _count("region_to_extent")
                lo, hi = res
                cid = chrom_ids[region[0]]
                co = h5["indexes"]["chrom_offset"]
                c0, c1 = int(co[cid]), int(co[cid + 1])
                if not (c0 <= lo <= hi <= c1):
                    pfail("region_to_extent", "C04", "extent-outside-chromosome",
                          f"extent {int(lo), int(hi)} of {region} leaves the chromosome's bins [{c0},{c1})",
                          {"region": list(region), "binsize": binsize})
            except Exception as e:
                pfail("region_to_extent", "C04", "probe:region_to_extent-error", f"probe error {e!r}")
            return res
        return w

    t = [(RQ, "region_to_extent"), (CORE, "region_to_extent"), (API, "region_to_extent")]
    if DUMP is not None:
        t.append((DUMP, "region_to_extent"))
    attach(t, factory)


def probe_get_spans():
    """CSRReader.get_spans: spans tile [i0,i1) (or are empty for an empty box)."""
    import cooler.core._rangequery as RQ

    orig = RQ.CSRReader.get_spans
    if getattr(orig, "_verif_probe", False):
        return

    @functools.wraps(orig)
    def w(self, bbox, chunksize):
        res = orig(self, bbox, chunksize)
        try:
            _count("get_spans")
            i0, i1, j0, j1 = bbox
            ctx = STATE["ctx"]
            offs = self.bin1_offsets
            if i1 > len(offs) - 1 or i0 < 0:
                return res          # box beyond the axis (unclipped bound, judged by the C03 check itself): nothing to tile
            if (i1 - i0 < 1) or (j1 - j0 < 1):
                ok = res == []
            else:
                # contiguous from i0; rows left out at the end hold no pixels
                end = res[-1][1] if res else i0
                ok = (all(a < b for a, b in res)
                      and (not res or res[0][0] == i0)
                      and all(res[k][1] == res[k + 1][0] for k in range(len(res) - 1))
                      and i0 <= end <= i1 and offs[end] == offs[i1])
                if ctx is not None and len(res) > 1:
                    ctx.features["spans:multi"] += 1
                    for a, b in res[:-1]:
                        if b < len(offs) - 1 and offs[b] == offs[b + 1]:
                            ctx.features["spans:edge-on-empty-row"] += 1
                if ctx is not None and res and end < i1:
                    ctx.features["spans:trailing-empty-rows-skipped"] += 1
            if not ok:
                pfail("get_spans", "C03", "probe:get_spans-not-a-tiling",
                      f"row spans {[(int(a), int(b)) for a, b in res]} do not cover the stored rows of [{i0},{i1})",
                      {"bbox": bbox, "chunksize": chunksize})
        except Exception as e:
            pfail("get_spans", "C03", "probe:get_spans-error", f"probe error {e!r}")
        return res

    w._verif_probe = True
    STATE["attached"].append((RQ.CSRReader, "get_spans", orig))
    RQ.CSRReader.get_spans = w


def probe_filllower():
    """FillLowerRangeQuery2D: the sub-boxes, mapped back through the transpose,
    tile the query box without overlap; record which branch was taken."""
    import cooler.core._rangequery as RQ

    orig = RQ.FillLowerRangeQuery2D.__init__
    if getattr(orig, "_verif_probe", False):
        return

    @functools.wraps(orig)
    def w(self, reader, field, bbox, chunksize, return_index=False):
        orig(self, reader, field, bbox, chunksize, return_index)
        try:
            _count("filllower")
            ctx = STATE["ctx"]
            i0, i1, j0, j1 = bbox
            tr = i1 > j1
            known = {}
            for task in self.tasks:
                known[tuple(task[2])] = task[0] is not reader
            boxes = [tuple(bb) for bb in self._bboxes]

            def cover_for(orients):
                cov = np.zeros((max(i1 - i0, 0), max(j1 - j0, 0)), dtype=int)
                for bb, transposed in zip(boxes, orients):
                    a0, a1, b0, b1 = bb
                    if a1 <= a0 or b1 <= b0:
                        continue
                    r0, r1, c0, c1 = (b0, b1, a0, a1) if transposed else (a0, a1, b0, b1)
                    if r0 < i0 or r1 > i1 or c0 < j0 or c1 > j1:
                        return None
                    cov[r0 - i0:r1 - i0, c0 - j0:c1 - j0] += 1
                return cov

            # orientation of a box without tasks (no stored rows) is not observable: try both
            import itertools as _it
            choices = [[known[bb]] if bb in known else [False, True] for bb in boxes]
            cover = None
            good = False
            for orients in _it.product(*choices):
                cov = cover_for(orients)
                if cov is None:
                    continue
                cover = cov
                if cov.size == 0 or (cov.min() == 1 and cov.max() == 1):
                    good = True
                    break
            if not good:
                pfail("filllower", "C03", "probe:filllower-subboxes-not-a-tiling",
                      f"sub-boxes {boxes} (transposed: {known}) of query {bbox} do not tile it")
            cover = np.zeros((max(i1 - i0, 0), max(j1 - j0, 0)), dtype=int)
            if ctx is not None and cover.size:
                a0, a1, b0, b1 = (j0, j1, i0, i1) if tr else (i0, i1, j0, j1)
                if a0 == b0:
                    br = "anchored"
                elif a0 < b0 and a1 <= b0:
                    br = "disjoint"
                elif a0 < b0 and a1 <= b1:
                    br = "overlap"
                else:
                    br = "nested"
                ctx.features[f"window:{br}{':T' if tr else ''}"] += 1
        except Exception as e:
            pfail("filllower", "C03", "probe:filllower-error", f"probe error {e!r}")

    w._verif_probe = True
    STATE["attached"].append((RQ.FillLowerRangeQuery2D, "__init__", orig))
    RQ.FillLowerRangeQuery2D.__init__ = w


def probe_merge():
    """merge_breakpoints partition + CoolerMerger epoch disjointness (C06/C07)."""
    import cooler._reduce as R

    def f_bp(orig):
        @functools.wraps(orig)
        def w(indexes, bufsize):
            res = orig(indexes, bufsize)
            try:
                _count("merge_breakpoints")
                part, cum = res
                comb = np.zeros(len(indexes[0]))
                for ix in indexes:
                    comb = comb + np.asarray(ix[:])
                nnz = comb[-1]
                part = np.asarray(part)
                ok = (len(part) >= 2 and part[0] == 0 and bool(np.all(np.diff(part) > 0))
                      and part[-1] <= len(comb) - 1 and comb[part[-1]] == nnz
                      and bool(np.array_equal(np.asarray(cum), comb[part])))
                if not ok:
                    pfail("merge_breakpoints", STATE["ctx"].prop if STATE["ctx"] else "C06",
                          "probe:merge_breakpoints-not-a-partition",
                          "merge partition is not strictly increasing from 0 up to the row where all records are consumed",
                          {"partition": part, "cum": cum, "combined_index": comb[:60], "bufsize": bufsize})
                ctx = STATE["ctx"]
                if ctx is not None:
                    ctx.features["merge:epochs>1" if len(part) > 2 else "merge:epochs=1"] += 1
                    if np.any(np.diff(np.asarray(cum)) == 0):
                        ctx.features["merge:epoch-with-zero-records"] += 1
            except Exception as e:
                pfail("merge_breakpoints", "C06", "probe:merge_breakpoints-error", f"probe error {e!r}")
            return res
        return w

    attach([(R, "merge_breakpoints")], f_bp)

    orig_iter = R.CoolerMerger.__iter__
    if not getattr(orig_iter, "_verif_probe", False):
        @functools.wraps(orig_iter)
        def it(self):
            last = -1
            nrec = 0
            for chunk in orig_iter(self):
                try:
                    _count("merger_iter")
                    b1 = np.asarray(chunk["bin1_id"]).astype(np.int64)
                    b2 = np.asarray(chunk["bin2_id"]).astype(np.int64)
                    prop = STATE["ctx"].prop if STATE["ctx"] else "C06"
                    if len(b1):
                        d1, d2 = np.diff(b1), np.diff(b2)
                        if np.any(d1 < 0) or np.any((d1 == 0) & (d2 <= 0)):
                            pfail("merger_iter", prop, "probe:merge-epoch-not-sorted-or-duplicate",
                                  "a merge epoch is not sorted and duplicate-free", {"bin1": b1[:40], "bin2": b2[:40]})
                        if b1[0] <= last:
                            pfail("merger_iter", prop, "probe:merge-epochs-overlap",
                                  f"merge epoch starts at row {int(b1[0])} but the previous one ended at row {last}")
                        last = int(b1[-1])
                        nrec += len(b1)
                except Exception as e:
                    pfail("merger_iter", "C06", "probe:merger_iter-error", f"probe error {e!r}")
                yield chunk
        it._verif_probe = True
        STATE["attached"].append((R.CoolerMerger, "__iter__", orig_iter))
        R.CoolerMerger.__iter__ = it


def probe_coarsen():
    """_greedy_prune_partition / CoolerCoarsener.__init__: pruned edges are a subset of the
    input edges with the end points kept; no coarse row is split (every edge is the pixel
    offset of an old bin whose rank within its chromosome is a multiple of the factor)."""
    import cooler._reduce as R

    def f_gp(orig):
        @functools.wraps(orig)
        def w(edges, maxlen):
            res = orig(edges, maxlen)
            try:
                _count("greedy_prune")
                e = np.asarray(edges)
                r = np.asarray(res)
                ok = (len(r) >= 1 and r[0] == e[0] and r[-1] == e[-1] and bool(np.all(np.isin(r, e)))
                      and bool(np.all(np.diff(r) > 0)) if len(r) > 1 else (len(r) == 1 and e[0] == e[-1]))
                if not ok:
                    pfail("greedy_prune", "C08", "probe:prune-not-subset-or-endpoints-lost",
                          "pruned partition is not an increasing subset of the input edges keeping both end points",
                          {"edges": e[:60], "pruned": r[:60], "maxlen": maxlen})
            except Exception as ex:
                pfail("greedy_prune", "C08", "probe:greedy_prune-error", f"probe error {ex!r}")
            return res
        return w

    attach([(R, "_greedy_prune_partition")], f_gp)

    orig_init = R.CoolerCoarsener.__init__
    if not getattr(orig_init, "_verif_probe", False):
        @functools.wraps(orig_init)
        def init(self, *a, **k):
            orig_init(self, *a, **k)
            try:
                _count("coarsener_init")
                co = np.asarray(self.old_chrom_offset).astype(np.int64)
                bo = np.asarray(self.old_bin1_offset).astype(np.int64)
                f = int(self.factor)
                allowed = set()
                for ci in range(len(co) - 1):
                    for b in range(int(co[ci]), int(co[ci + 1]), f):
                        allowed.add(int(bo[b]))
                allowed.add(int(bo[-1]))
                edges = [int(x) for x in np.asarray(self.edges)]
                bad = [x for x in edges if x not in allowed]
                if bad or (edges and (edges[0] != 0 or edges[-1] != int(bo[-1]))):
                    pfail("coarsener_init", "C08", "probe:coarse-row-split",
                          f"chunk edges {bad[:10]} are not pixel offsets of a coarse-row start (factor {f})",
                          {"edges": edges[:60], "factor": f, "chunksize": self.chunksize})
                ctx = STATE["ctx"]
                if ctx is not None:
                    ctx.features["coarsen:spans>1" if len(edges) > 2 else "coarsen:spans<=1"] += 1
            except Exception as ex:
                pfail("coarsener_init", "C08", "probe:coarsener_init-error", f"probe error {ex!r}")
        init._verif_probe = True
        STATE["attached"].append((R.CoolerCoarsener, "__init__", orig_init))
        R.CoolerCoarsener.__init__ = init


def probe_coarsen_tasks(seed=0, max_ms=3.0):
    """Wrap CoolerCoarsener.aggregate (runs in pool workers): task-dependent delay around the
    whole task + an event (pid, span, t0, t1) for the schedule evidence."""
    import cooler._reduce as R
    from .sched import task_delay

    orig = R.CoolerCoarsener.aggregate
    if getattr(orig, "_verif_probe", False):
        return

    @functools.wraps(orig)
    def agg(self, span):
        t0 = time.monotonic_ns()
        if os.getpid() != STATE["main_pid"]:
            time.sleep(task_delay((int(span[0]), int(span[1])), seed, max_ms))
        r = orig(self, span)
        emit({"ev": "coarsen_task", "span": [int(span[0]), int(span[1])], "t0": t0, "t1": time.monotonic_ns(),
              "worker": os.getpid() != STATE["main_pid"]})
        return r
    agg._verif_probe = True
    STATE["attached"].append((R.CoolerCoarsener, "aggregate", orig))
    R.CoolerCoarsener.aggregate = agg


def probe_multiplier_sequence():
    import cooler._reduce as R

    def factory(orig):
        @functools.wraps(orig)
        def w(resolutions, bases=None):
            resolutions = list(resolutions)          # a one-shot iterable is materialised once, here, for both uses
            res = orig(resolutions, bases)
            try:
                _count("multiplier_sequence")
                resn, pred, mult = (np.asarray(x) for x in res)
                bs = set(bases) if bases is not None else {min(resolutions)}
                ok = bool(np.all(np.diff(resn) > 0)) and set(resn.tolist()) == set(resolutions) | bs
                for i in range(len(resn)):
                    if int(resn[i]) in bs:
                        ok = ok and pred[i] == -1          # a supplied base is copied, never re-derived (F22)
                    elif pred[i] == -1:
                        ok = False
                    else:
                        ok = ok and 0 <= pred[i] < i and resn[pred[i]] * mult[i] == resn[i] and mult[i] >= 2
                if not ok:
                    pfail("multiplier_sequence", "C09", "probe:multiplier-sequence-inconsistent",
                          "resn/pred/mult are not a consistent derivation of every resolution from a base",
                          {"resn": resn, "pred": pred, "mult": mult, "bases": sorted(bs)})
            except Exception as ex:
                pfail("multiplier_sequence", "C09", "probe:multiplier_sequence-error", f"probe error {ex!r}")
            return res
        return w

    attach([(R, "get_multiplier_sequence")], factory)


def probe_balance_pipeline():
    """C11: pass begin/end around MultiplexDataPipe.reduce and every span fetched by chunkgetter
    (pid, lo, hi, rows) for the exactly-once checker. Worker-side events go to the event log."""
    import cooler.parallel as PAR

    orig_reduce = PAR.MultiplexDataPipe.reduce
    if not getattr(orig_reduce, "_verif_probe", False):
        @functools.wraps(orig_reduce)
        def red(self, binop, init):
            _count("pipe_reduce")
            try:
                keys = [[int(a), int(b)] for a, b in self.keys]
            except Exception:       # generic pipelines may use any keys (the repo's own tests do)
                keys = None
            emit({"ev": "pass_begin", "keys": keys})
            try:
                return orig_reduce(self, binop, init)
            finally:
                emit({"ev": "pass_end"})
        red._verif_probe = True
        STATE["attached"].append((PAR.MultiplexDataPipe, "reduce", orig_reduce))
        PAR.MultiplexDataPipe.reduce = red

    orig_call = PAR.chunkgetter.__call__
    if not getattr(orig_call, "_verif_probe", False):
        @functools.wraps(orig_call)
        def call(self, span):
            chunk = orig_call(self, span)
            try:
                rows = len(chunk["pixels"]["bin1_id"])
                emit({"ev": "fetch", "lo": int(span[0]), "hi": int(span[1]), "rows": int(rows)})
            except Exception:
                pass
            return chunk
        call._verif_probe = True
        STATE["attached"].append((PAR.chunkgetter, "__call__", orig_call))
        PAR.chunkgetter.__call__ = call
