"""Driver plumbing shared by every property check.

Parent side  : plan shards -> run each as a fresh subprocess -> merge reports ->
               classify failures against known_findings.json -> evidence + verdict.
Shard side   : Ctx / Case objects that property modules use to record what the
               monitors observed.

Verdicts are three-valued and never folded:
    exit 0  held on what was observed (KNOWN-FINDING lines possible)
    exit 1  VIOLATION property=<id> replay=<path>
    exit 2  INCONCLUSIVE property=<id> reason=...
"""
from __future__ import annotations

import hashlib
import importlib
import json
import os
import shutil
import subprocess
import sys
import tempfile
import time
import traceback
import zlib
from collections import Counter
from concurrent.futures import ThreadPoolExecutor
from contextlib import contextmanager

VERIF = os.path.dirname(os.path.dirname(os.path.abspath(__file__)))
REPO = os.environ.get("COOLER_VERIF_REPO", "/repo")
REPO_SRC = os.path.join(REPO, "src", "cooler")
PY = os.environ.get("COOLER_VERIF_PY", "/venv/bin/python")
GUARD = "COOLER_VERIF"

LEVELS = {"C13": "fault_enumeration"}


# --------------------------------------------------------------------------
# small helpers
# --------------------------------------------------------------------------
def h64(*parts) -> int:
    m = hashlib.blake2b(digest_size=8)
    for p in parts:
        m.update(repr(p).encode())
        m.update(b"\x00")
    return int.from_bytes(m.digest(), "big")


def jsonable(o, depth=0):
    """Best-effort conversion of witnesses (numpy, pandas, tuples) to JSON."""
    import numpy as np

    if depth > 8:
        return repr(o)
    if o is None or isinstance(o, (bool, int, str)):
        return o
    if isinstance(o, float):
        if o != o:
            return "NaN"
        if o in (float("inf"), float("-inf")):
            return repr(o)
        return o
    if isinstance(o, (np.integer,)):
        return int(o)
    if isinstance(o, (np.floating,)):
        return jsonable(float(o))
    if isinstance(o, np.bool_):
        return bool(o)
    if isinstance(o, np.ndarray):
        if o.size > 400:
            return {"ndarray": list(o.shape), "head": jsonable(o.ravel()[:50].tolist())}
        return jsonable(o.tolist(), depth + 1)
    if isinstance(o, dict):
        return {str(k): jsonable(v, depth + 1) for k, v in o.items()}
    if isinstance(o, (list, tuple, set, frozenset)):
        lst = list(o)
        if len(lst) > 400:
            return {"len": len(lst), "head": [jsonable(v, depth + 1) for v in lst[:50]]}
        return [jsonable(v, depth + 1) for v in lst]
    try:
        import pandas as pd

        if isinstance(o, pd.DataFrame):
            return {"columns": list(map(str, o.columns)),
                    "rows": jsonable(o.head(60).values.tolist(), depth + 1),
                    "nrows": len(o)}
        if isinstance(o, pd.Series):
            return jsonable(o.head(60).tolist(), depth + 1)
    except Exception:
        pass
    if isinstance(o, bytes):
        return o.decode("latin1")
    return repr(o)[:500]


def cooler_frames(tb) -> list[str]:
    """Function names of traceback frames that lie inside /repo/src/cooler."""
    out = []
    for fs in traceback.extract_tb(tb):
        fn = os.path.realpath(fs.filename)
        if fn.startswith(os.path.realpath(REPO_SRC) + os.sep):
            mod = os.path.relpath(fn, os.path.realpath(REPO_SRC))[:-3].replace(os.sep, ".")
            out.append(f"{mod}.{fs.name}")
    return out


class HarnessError(Exception):
    """The harness (not cooler) misbehaved; makes the shard inconclusive."""


class Skip(Exception):
    """Case outside the domain the property quantifies over."""


# --------------------------------------------------------------------------
# shard side
# --------------------------------------------------------------------------
class Case:
    def __init__(self, ctx, cid, desc):
        self.ctx = ctx
        self.cid = cid
        self.desc = desc
        self.failed = False

    def feature(self, *names):
        for n in names:
            self.ctx.features[n] += 1

    def nontrivial(self, *key):
        self.ctx.distinct.add(h64(self.ctx.prop, *key))

    def evals(self, n=1):
        self.ctx.evaluations += n

    def fail(self, key, what, witness=None, advisory=False, prop=None):
        """Record an oracle failure. `key` is a mechanism key built from
        structural features of the failing case (never random values)."""
        rec = {
            "key": f"{prop or self.ctx.prop}/{key}",
            "what": what,
            "cid": self.cid,
            "desc": jsonable(self.desc),
            "witness": jsonable(witness),
            "shard": self.ctx.shard,
        }
        if advisory:
            self.ctx.alerts.append(rec)
        else:
            self.failed = True
            self.ctx.failures.append(rec)
        return False

    def check(self, cond, key, what, witness=None):
        self.ctx.oracle_evals += 1
        if not cond:
            w = witness() if callable(witness) else witness
            self.fail(key, what, w)
            return False
        return True

    def inconclusive(self, reason):
        self.ctx.inconclusive.append({"cid": self.cid, "reason": reason})


class Ctx:
    def __init__(self, prop, tier, seed, shard, tmp, only=None):
        self.prop = prop
        self.tier = tier
        self.seed = seed
        self.shard = shard
        self.tmp = tmp
        self.only = only
        self.evaluations = 0
        self.oracle_evals = 0
        self.distinct = set()
        self.bulk_distinct = 0  # cases distinct by construction (exhaustive enumerations)
        self.features = Counter()
        self.failures = []
        self.alerts = []
        self.inconclusive = []
        self.samples = []
        self.probe_counts = Counter()
        self.extra = {}
        self.cur = None
        self._n = 0

    # deterministic randomness: one stream per (seed, shard, key)
    def rng(self, *key):
        import numpy as np

        s = zlib.crc32(repr((self.shard.get("id"), key)).encode())
        return np.random.Generator(np.random.PCG64([self.seed, s]))

    def want(self, cid):
        return self.only is None or self.only == cid

    def path(self, name=None, suffix=".cool"):
        self._n += 1
        return os.path.join(self.tmp, name or f"f{self._n}{suffix}")

    def newdir(self):
        self._n += 1
        d = os.path.join(self.tmp, f"d{self._n}")
        os.makedirs(d)
        return d

    def sample(self, obj, limit=6):
        if len(self.samples) < limit:
            self.samples.append(jsonable(obj))

    def maxstat(self, name, value):
        cur = self.extra.get(name)
        if cur is None or value > cur:
            self.extra[name] = value

    @contextmanager
    def case(self, cid, desc=None, exc_key=None):
        """Run one case. An exception escaping the block is attributed to cooler
        when the traceback passes through cooler frames (the real code crashed
        on an input of the property's domain); otherwise it is a harness error."""
        c = Case(self, cid, desc)
        self.cur = c
        self.evaluations += 1
        try:
            yield c
        except Skip:
            self.evaluations -= 1
        except HarnessError:
            raise
        except BaseException as e:  # noqa
            if isinstance(e, (KeyboardInterrupt, SystemExit)) and not isinstance(e, SystemExit):
                raise
            frames = cooler_frames(e.__traceback__)
            if not frames:
                raise HarnessError(
                    f"case {cid}: {type(e).__name__}: {e}\n" + traceback.format_exc()
                ) from e
            key = exc_key(e, frames) if exc_key else None
            if key is None:
                key = f"exc:{type(e).__name__}@{frames[-1]}"
            c.fail(key, f"unexpected {type(e).__name__}: {str(e)[:300]}",
                   {"traceback": traceback.format_exc()[-3000:]})
        finally:
            self.cur = None

    def report(self):
        return {
            "shard": self.shard,
            "evaluations": self.evaluations,
            "oracle_evals": self.oracle_evals,
            "distinct": sorted(self.distinct),
            "bulk_distinct": self.bulk_distinct,
            "features": dict(self.features),
            "failures": self.failures,
            "alerts": self.alerts[:50],
            "inconclusive": self.inconclusive[:200],
            "n_inconclusive": len(self.inconclusive),
            "samples": self.samples,
            "probe_counts": dict(self.probe_counts),
            "extra": self.extra,
        }


def assert_repo_cooler():
    import cooler

    f = os.path.realpath(cooler.__file__)
    if not f.startswith(os.path.realpath(REPO_SRC) + os.sep):
        raise HarnessError(f"cooler imported from {f}, not from {REPO_SRC}")


def shard_main(argv):
    spec_path, out_path = argv
    with open(spec_path) as f:
        spec = json.load(f)
    prop = spec["prop"]
    os.environ[GUARD] = "1"
    import warnings

    warnings.simplefilter("ignore")
    t0 = time.time()
    status, err = "ok", None
    ctx = Ctx(prop, spec["tier"], spec["seed"], spec["shard"], spec["tmp"], spec.get("only"))
    try:
        assert_repo_cooler()
        mod = importlib.import_module(f"mon.props.{prop.lower()}")
        mod.run(ctx, spec["shard"])
    except HarnessError as e:
        status, err = "harness_error", str(e)[-4000:]
    except BaseException as e:  # noqa
        status, err = "harness_error", traceback.format_exc()[-4000:]
    rep = ctx.report()
    rep["status"] = status
    rep["error"] = err
    rep["wall_s"] = time.time() - t0
    with open(out_path, "w") as f:
        json.dump(rep, f)


# --------------------------------------------------------------------------
# parent side
# --------------------------------------------------------------------------
def scratch_root():
    base = "/dev/shm" if os.path.isdir("/dev/shm") and os.access("/dev/shm", os.W_OK) else None
    return tempfile.mkdtemp(prefix="cooler-verif-", dir=base)


def load_known():
    p = os.path.join(VERIF, "known_findings.json")
    if not os.path.exists(p):
        return {}
    with open(p) as f:
        doc = json.load(f)
    return {(e["property"], e["key"]): e for e in doc.get("findings", [])}


def run_shard_proc(prop, tier, seed, shard, root, only=None, timeout=1800, dev=False):
    sid = shard["id"]
    tmp = os.path.join(root, f"s{sid}")
    os.makedirs(tmp, exist_ok=True)
    spec = {"prop": prop, "tier": tier, "seed": seed, "shard": shard, "tmp": tmp, "only": only}
    spec_path = os.path.join(root, f"spec{sid}.json")
    out_path = os.path.join(root, f"out{sid}.json")
    with open(spec_path, "w") as f:
        json.dump(spec, f)
    env = dict(os.environ)
    env[GUARD] = "1"
    env["PYTHONHASHSEED"] = "0"
    # REPO/src first: wins over the editable install, so a scratch worktree can be checked
    # with COOLER_VERIF_REPO=<worktree> (default /repo)
    env["PYTHONPATH"] = os.path.join(REPO, "src") + os.pathsep + VERIF
    env.setdefault("OMP_NUM_THREADS", "1")
    env.setdefault("OPENBLAS_NUM_THREADS", "1")
    env["HDF5_USE_FILE_LOCKING"] = env.get("HDF5_USE_FILE_LOCKING", "FALSE")
    env["TMPDIR"] = tmp
    cmd = [PY, "-X", "faulthandler"]
    if dev:
        cmd += ["-X", "dev"]
    cmd += ["-c", "import sys; from mon.core import shard_main; shard_main(sys.argv[1:])",
            spec_path, out_path]
    t0 = time.time()
    try:
        p = subprocess.run(cmd, cwd=VERIF, env=env, timeout=timeout,
                           stdout=subprocess.PIPE, stderr=subprocess.PIPE)
        rc, so, se = p.returncode, p.stdout, p.stderr
    except subprocess.TimeoutExpired as e:
        rc, so, se = "timeout", e.stdout or b"", e.stderr or b""
    rep = None
    if os.path.exists(out_path):
        try:
            with open(out_path) as f:
                rep = json.load(f)
        except Exception:
            rep = None
    if rep is None:
        rep = {"shard": shard, "status": "timeout" if rc == "timeout" else "crashed",
               "error": (se or b"").decode("utf8", "replace")[-3000:], "evaluations": 0,
               "oracle_evals": 0, "distinct": [], "bulk_distinct": 0, "features": {}, "failures": [], "alerts": [],
               "inconclusive": [], "n_inconclusive": 0, "samples": [], "probe_counts": {},
               "extra": {}, "wall_s": time.time() - t0}
    rep["rc"] = rc
    shutil.rmtree(tmp, ignore_errors=True)
    return rep


def merge_extra(dst, src):
    for k, v in src.items():
        if k.startswith("max_") and isinstance(v, (int, float)):
            dst[k] = max(dst.get(k, v), v)
        elif k.startswith("min_") and isinstance(v, (int, float)):
            dst[k] = min(dst.get(k, v), v)
        elif isinstance(v, (int, float)) and not isinstance(v, bool):
            dst[k] = dst.get(k, 0) + v
        elif isinstance(v, list):
            dst.setdefault(k, [])
            for x in v:
                if x not in dst[k] and len(dst[k]) < 40:
                    dst[k].append(x)
        elif isinstance(v, dict):
            d = dst.setdefault(k, {})
            merge_extra(d, v)
        else:
            dst[k] = v


def main(argv=None):
    import argparse

    ap = argparse.ArgumentParser(prog="check")
    ap.add_argument("prop")
    ap.add_argument("--tier", default=os.environ.get("VERIF_TIER", "quick"),
                    choices=["quick", "thorough"])
    ap.add_argument("--seed", type=int, default=int(os.environ.get("VERIF_SEED", "0") or 0))
    ap.add_argument("--replay")
    ap.add_argument("--jobs", type=int, default=int(os.environ.get("VERIF_JOBS", "0") or 0))
    ap.add_argument("--shard", type=int, help="run only this shard id (debug)")
    ap.add_argument("--inproc", action="store_true", help="run shards in-process (debug)")
    ap.add_argument("--no-evidence", action="store_true")
    a = ap.parse_args(argv)
    prop = a.prop.upper()
    sys.path.insert(0, VERIF)
    os.environ[GUARD] = "1"
    os.environ.setdefault("PYTHONHASHSEED", "0")
    t0 = time.time()
    mod = importlib.import_module(f"mon.props.{prop.lower()}")
    jobs = a.jobs or min(16, os.cpu_count() or 4)

    only = None
    if a.replay:
        with open(a.replay) as f:
            rp = json.load(f)
        shards = [rp["shard"]]
        only = rp["cid"]
        a.tier, a.seed = rp["tier"], rp["seed"]
    else:
        shards = mod.plan(a.tier, a.seed)
        for i, s in enumerate(shards):
            s.setdefault("id", i)
        if a.shard is not None:
            shards = [s for s in shards if s["id"] == a.shard]

    root = scratch_root()
    reports = []
    try:
        if a.inproc:
            for s in shards:
                tmp = os.path.join(root, f"s{s['id']}")
                os.makedirs(tmp)
                ctx = Ctx(prop, a.tier, a.seed, s, tmp, only)
                assert_repo_cooler()
                mod.run(ctx, s)
                r = ctx.report()
                r.update(status="ok", error=None, wall_s=0, rc=0)
                reports.append(r)
        else:
            timeout = getattr(mod, "SHARD_TIMEOUT", {}).get(a.tier, 1800 if a.tier == "quick" else 7200)
            ndev = getattr(mod, "DEV_SHARDS", 1)
            with ThreadPoolExecutor(max_workers=jobs) as ex:
                futs = [ex.submit(run_shard_proc, prop, a.tier, a.seed, s, root, only, timeout,
                                  dev=(i < ndev and getattr(mod, "DEV_OK", False)))
                        for i, s in enumerate(shards)]
                reports = [f.result() for f in futs]
    finally:
        shutil.rmtree(root, ignore_errors=True)

    return finish(prop, a, mod, shards, reports, time.time() - t0, replaying=bool(a.replay))


def finish(prop, a, mod, shards, reports, wall, replaying=False):
    known = load_known()
    evaluations = sum(r["evaluations"] for r in reports)
    oracle_evals = sum(r.get("oracle_evals", 0) for r in reports)
    distinct = set()
    bulk = sum(r.get("bulk_distinct", 0) for r in reports)
    features = Counter()
    probe_counts = Counter()
    extra = {}
    samples, alerts, failures, inconcl = [], [], [], []
    n_inconcl = 0
    bad_shards = []
    for r in reports:
        distinct.update(r["distinct"])
        features.update(r["features"])
        probe_counts.update(r["probe_counts"])
        merge_extra(extra, r["extra"])
        for s in r["samples"]:
            if len(samples) < 8:
                samples.append(s)
        alerts += r["alerts"]
        failures += r["failures"]
        inconcl += r["inconclusive"]
        n_inconcl += r.get("n_inconclusive", 0)
        if r["status"] != "ok":
            bad_shards.append({"shard": r["shard"], "status": r["status"],
                               "error": (r.get("error") or "")[-1500:]})

    # classify failures by mechanism key
    by_key = {}
    for f in failures:
        by_key.setdefault(f["key"], []).append(f)
    violations, known_seen = [], []
    for key, fs in sorted(by_key.items()):
        ent = known.get((prop, key))
        if ent is not None and ent.get("status") == "known":
            known_seen.append((key, ent, fs))
        else:
            violations.append((key, fs))

    lines = []
    rc = 0
    for key, ent, fs in known_seen:
        lines.append(f"KNOWN-FINDING: property={prop} {key}: {ent['what']} (seen {len(fs)}x)")
    if violations:
        rc = 1
        rdir = os.path.join(VERIF, "replays", prop)
        os.makedirs(rdir, exist_ok=True)
        for key, fs in violations:
            f0 = fs[0]
            name = "".join(ch if ch.isalnum() or ch in "-_." else "_" for ch in key)[:80]
            path = os.path.join(rdir, f"{name}.json")
            with open(path, "w") as fh:
                json.dump({"property": prop, "key": key, "tier": a.tier, "seed": a.seed,
                           "shard": f0["shard"], "cid": f0["cid"], "what": f0["what"],
                           "desc": f0["desc"], "witness": f0["witness"], "count": len(fs)},
                          fh, indent=1)
            lines.append(f"VIOLATION property={prop} replay={path}")
            lines.append(f"  key={key} n={len(fs)} what={f0['what'][:300]}")
    reasons = []
    if bad_shards:
        reasons.append(f"{len(bad_shards)} shard(s) did not complete: "
                       + "; ".join(f"{b['shard'].get('id')}:{b['status']}" for b in bad_shards[:5]))
    if not replaying:
        floor = getattr(mod, "MIN_NONTRIVIAL", {}).get(a.tier, 2)
        if len(distinct) + bulk < floor and a.shard is None:
            reasons.append(f"only {len(distinct) + bulk} distinct non-trivial cases (< {floor})")
        for pname in getattr(mod, "REQUIRED_PROBES", []):
            if probe_counts.get(pname, 0) == 0 and a.shard is None:
                reasons.append(f"deciding monitor '{pname}' was never reached")
        for fname in getattr(mod, "REQUIRED_FEATURES", []):
            if features.get(fname, 0) == 0 and a.shard is None:
                reasons.append(f"feature class '{fname}' never exercised")
    if reasons and rc == 0:
        rc = 2
    for rs in reasons:
        lines.append(f"INCONCLUSIVE property={prop} reason={rs}")

    if not replaying and not a.no_evidence and a.shard is None:
        cov = {
            "evaluations": int(evaluations),
            "distinct_nontrivial": int(len(distinct) + bulk),
            "distinct_by_enumeration": int(bulk),
            "rule": getattr(mod, "RULE", ""),
            "samples": samples or [{"note": "no sample recorded"}],
            "oracle_clause_evaluations": int(oracle_evals),
            "feature_classes_hit": dict(sorted(features.items())),
            "probe_evaluations": dict(sorted(probe_counts.items())),
            "shards": len(reports),
            "shards_not_completed": bad_shards,
            "known_findings_seen": [{"key": k, "count": len(fs)} for k, _, fs in known_seen],
            "violations_by_key": [{"key": k, "count": len(fs)} for k, fs in violations],
            "cross_property_alerts": [{"key": x["key"], "what": x["what"][:200]} for x in alerts[:20]],
            "n_cross_property_alerts": len(alerts),
            "inconclusive_cases": n_inconcl,
            "inconclusive_samples": inconcl[:10],
            "verdict": {0: "held", 1: "violated", 2: "inconclusive"}[rc],
        }
        if getattr(mod, "EXHAUSTIVE", None):
            cov["exhaustive_within"] = mod.EXHAUSTIVE.get(a.tier)
        cov.update(extra)
        ev = {
            "property_id": prop,
            "tier": a.tier,
            "seed": int(a.seed),
            "level": LEVELS.get(prop, "exploration"),
            "coverage": cov,
            "assumptions": list(getattr(mod, "ASSUMPTIONS", [])),
            "wall_s": round(wall, 2),
            "violations": len(violations),
        }
        os.makedirs(os.path.join(VERIF, "evidence"), exist_ok=True)
        with open(os.path.join(VERIF, "evidence", f"{prop}.json"), "w") as fh:
            json.dump(ev, fh, indent=1, sort_keys=False)
            fh.write("\n")

    print(f"[{prop}] tier={a.tier} seed={a.seed} shards={len(reports)} evaluations={evaluations} "
          f"oracle_clauses={oracle_evals} distinct_nontrivial={len(distinct) + bulk} "
          f"inconclusive_cases={n_inconcl} alerts={len(alerts)} wall={wall:.1f}s")
    if features:
        top = ", ".join(f"{k}={v}" for k, v in sorted(features.items())[:40])
        print(f"[{prop}] features: {top}")
    if probe_counts:
        print(f"[{prop}] probes: " + ", ".join(f"{k}={v}" for k, v in sorted(probe_counts.items())))
    for b in bad_shards[:3]:
        print(f"[{prop}] shard {b['shard'].get('id')} {b['status']}:\n{b['error']}")
    for ln in lines:
        print(ln)
    print(f"[{prop}] verdict={ {0: 'held', 1: 'violated', 2: 'inconclusive'}[rc] }")
    return rc
