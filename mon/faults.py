"""Fault injection: source-free failpoints via sys.monitoring LINE events (PEP 669)."""
from __future__ import annotations

import sys

mon = sys.monitoring
TOOL = 4


class InjectedFault(Exception):
    pass


class InjectedOSError(InjectedFault, OSError):
    """what a failing write looks like to the code under test (full disk, lock held elsewhere, read-only file)"""


class InjectedRuntimeError(InjectedFault, RuntimeError):
    """what h5py raises for many failed HDF5 calls"""


FAULT_CLASSES = [InjectedFault, InjectedOSError, InjectedRuntimeError]


class LineFailpoints:
    """Count LINE events in the given code objects; optionally raise at the k-th one."""

    def __init__(self, codes):
        self.codes = list(codes)
        self.count = 0
        self.target = None
        self.fired_at = None
        self.trace = []
        self.exc_class = InjectedFault

    def _cb(self, code, line):
        self.count += 1
        if len(self.trace) < 5000:
            self.trace.append((code.co_name, line))
        if self.target is not None and self.count == self.target:
            self.fired_at = (code.co_name, line)
            raise self.exc_class(f"injected at {code.co_name}:{line} (event {self.count})")
        return None

    def __enter__(self):
        try:
            mon.use_tool_id(TOOL, "cooler-verif-failpoints")
        except ValueError:
            pass
        mon.register_callback(TOOL, mon.events.LINE, self._cb)
        for c in self.codes:
            mon.set_local_events(TOOL, c, mon.events.LINE)
        return self

    def __exit__(self, *a):
        for c in self.codes:
            mon.set_local_events(TOOL, c, 0)
        mon.register_callback(TOOL, mon.events.LINE, None)
        try:
            mon.free_tool_id(TOOL)
        except ValueError:
            pass
        return False


def writer_codes():
    """Code objects of the writer phases (originals, even when probes wrapped them)."""
    import cooler._reduce as R
    import cooler.create._create as C

    def orig(f):
        return getattr(f, "_verif_orig", f)

    fns = [orig(C.create), orig(C.write_pixels), orig(C.write_indexes), orig(C.write_info), orig(C.index_pixels),
           orig(C.index_bins), orig(C.write_chroms), orig(C.write_bins), orig(C.prepare_pixels),
           orig(C.create_from_unordered)]
    codes = [f.__code__ for f in fns]
    codes.append(getattr(R.CoolerMerger.__iter__, "__wrapped__", R.CoolerMerger.__iter__).__code__)
    codes.append(R.CoolerCoarsener.__iter__.__code__)
    codes.append(orig(R.merge_breakpoints).__code__)
    return codes
