"""Seeded workload generators shared by the property checks.

Everything is JSON-able so that a failing case can be written out verbatim:

  bin table  BT = [[chrom_name, [0, e1, e2, ..., length]], ...]   (edges per chromosome)
  matrix     P  = {(i, j): value}  (symmetric-upper: i <= j)
"""
from __future__ import annotations

import numpy as np
import pandas as pd

NAMES = ["chr1", "chr2", "chrX", "2", "HLA-DRB1.1", "chr 1", "chrUn_gl000220", "MT", "c10", "c2",
         "scaffold_7-b", "1", "ctg7,1", "ctg71"]

BT_FAMILIES = ["fixed_exact", "fixed_short", "fixed_onebin", "variable", "onebin_each", "mixed",
               "multi_width", "trap"]


# ---------------------------------------------------------------- bin tables
def bt_frame(bt, categorical=False):
    chrom, start, end = [], [], []
    for name, edges in bt:
        for a, b in zip(edges[:-1], edges[1:]):
            chrom.append(name)
            start.append(a)
            end.append(b)
    df = pd.DataFrame({"chrom": chrom, "start": np.array(start, dtype=np.int64),
                       "end": np.array(end, dtype=np.int64)})
    if categorical:
        df["chrom"] = pd.Categorical(df["chrom"], categories=[c for c, _ in bt], ordered=True)
    return df


def bt_nbins(bt):
    return sum(len(e) - 1 for _, e in bt)


def bt_offsets(bt):
    off = [0]
    for _, e in bt:
        off.append(off[-1] + len(e) - 1)
    return off


def bt_chromsizes(bt):
    return pd.Series([e[-1] for _, e in bt], index=[c for c, _ in bt], dtype=np.int64)


def bt_bins_list(bt):
    """[(chrom, start, end)] in bin-id order."""
    return [(c, a, b) for c, e in bt for a, b in zip(e[:-1], e[1:])]


def bt_chrom_of(bt):
    out = []
    for ci, (_, e) in enumerate(bt):
        out += [ci] * (len(e) - 1)
    return np.array(out, dtype=int)


def fixed_edges(length, b):
    e = list(range(0, length, b)) + [length]
    return e


def bt_fixed_width(bt):
    """Width b if the table is a genuine fixed-width table, else None.
    Genuine: every bin is [k*b, min((k+1)*b, length)).  For tables in which every
    chromosome has a single bin no width is determined -> None."""
    widths = set()
    for _, e in bt:
        for a, b in zip(e[:-2], e[1:-1]):
            widths.add(b - a)
    if len(widths) != 1:
        return None
    b = next(iter(widths))
    for _, e in bt:
        if e != fixed_edges(e[-1], b):
            return None
    return b


def gen_names(rng, k):
    idx = rng.permutation(len(NAMES))[:k]
    return [NAMES[i] for i in idx]


def gen_bt(rng, family=None, max_chroms=5, max_bins=30, widths=(1, 2, 3, 5, 10, 1000)):
    """Generate a valid bin table of the requested family."""
    if family is None:
        family = BT_FAMILIES[int(rng.integers(len(BT_FAMILIES) - 1))]  # trap only on request
    k = int(rng.integers(1, max_chroms + 1))
    names = gen_names(rng, k)
    per = max(1, max_bins // k)
    bt = []
    b = int(widths[int(rng.integers(len(widths)))])
    for ci, name in enumerate(names):
        nb = int(rng.integers(1, per + 1))
        if family == "fixed_exact":
            edges = fixed_edges(nb * b, b)
        elif family == "fixed_short":
            if b == 1:
                b = 2
            nb = max(nb, 1)
            length = (nb - 1) * b + int(rng.integers(1, b))
            edges = fixed_edges(length, b)
        elif family == "fixed_onebin":
            # at least one chromosome no longer than the bin width
            if ci == 0 or rng.random() < 0.4:
                edges = [0, int(rng.integers(1, b + 1))]
            else:
                edges = fixed_edges(int(rng.integers(1, nb * b + 1)), b)
        elif family == "onebin_each":
            edges = [0, int(rng.integers(1, 50))]
        elif family == "variable":
            nb = min(nb, 8)
            w = rng.integers(1, 10, size=nb)
            edges = [0] + np.cumsum(w).tolist()
        elif family == "mixed":
            r = rng.random()
            if r < 0.3:
                edges = [0, int(rng.integers(1, b + 1))]
            elif r < 0.6:
                edges = fixed_edges(nb * b, b)
            else:
                edges = fixed_edges(int(rng.integers(1, nb * b + 1)), b)
        elif family == "multi_width":
            # every chromosome is uniform, but each at its OWN width (a valid variable-width table)
            bw = int([2, 3, 5, 10, 7][(ci + int(b)) % 5]) * (ci + 1)
            nb = max(nb, 2)
            edges = fixed_edges(nb * bw - int(rng.integers(0, bw)), bw)
            if len(edges) < 3:
                edges = [0, bw, 2 * bw]
        elif family == "trap":
            # valid variable-width tables that look fixed if last bins are ignored:
            # (i) all bins but the last equal, last one LONGER; (ii) a ONE-BIN chromosome longer
            # than the width shared by the multi-bin chromosomes
            if b == 1000:
                b = 10
            if ci == 0:
                trap_kind = int(rng.integers(3))
            nb = max(nb, 2 if ci == 0 else 1)
            if trap_kind == 2:
                # (iii) only the FIRST chromosome ends in a longer bin; the others are plain fixed-width
                if ci == 0:
                    nb = max(nb, 3)
                    edges = [i_ * b for i_ in range(nb)] + [(nb - 1) * b + b + int(rng.integers(1, b + 3))]
                else:
                    edges = fixed_edges(max(nb, 2) * b - int(rng.integers(0, b)), b)
            elif trap_kind == 0:
                edges = [i * b for i in range(nb)] + [(nb - 1) * b + b + int(rng.integers(1, b + 3))]
                if nb == 1 and ci > 0:
                    edges = [0, int(rng.integers(1, 3 * b))]
            else:
                if ci == 0:
                    edges = fixed_edges(nb * b - int(rng.integers(0, b)), b)
                    if len(edges) < 3:
                        edges = [0, b, 2 * b]
                elif ci == 1 or rng.random() < 0.3:
                    edges = [0, b + int(rng.integers(1, 2 * b + 2))]      # one long bin
                else:
                    edges = fixed_edges(int(rng.integers(1, nb * b + 1)), b)
        else:
            raise ValueError(family)
        bt.append([name, [int(x) for x in edges]])
    if family == "multi_width" and len(bt) == 1:
        bt.append(["mwX", [0, 4, 8, 12, 13]] if bt[0][1][1] != 4 else ["mwX", [0, 6, 12, 15]])
    if family == "variable" and bt_fixed_width(bt) is not None:
        # make sure it is really variable: tweak so it cannot look fixed
        bt[0][1] = [0, 3, 4, 9]
    if family == "variable" and all(len(e) <= 2 for _, e in bt):
        bt[0][1] = [0, 3, 4, 9]
    if family == "trap" and len(bt[0][1]) < 3:
        bt[0][1] = [0, b, 2 * b, 3 * b + 2]
    if family == "trap" and not bt_is_trap(bt):
        # e.g. kind (ii) with a single chromosome: append the long one-bin chromosome
        bt.append(["trapX", [0, 3 * b + 1]])
    return bt


def bt_is_trap(bt):
    """True when cooler.util.get_binsize would see a single width among the non-last
    bins although the table is not a genuine fixed-width table."""
    widths = set()
    for _, e in bt:
        for a, b in zip(e[:-2], e[1:-1]):
            widths.add(b - a)
    return len(widths) == 1 and bt_fixed_width(bt) is None


# ---------------------------------------------------------------- matrices
PATTERNS = ["empty", "diag", "dense", "sparse05", "sparse30", "sparse70", "emptyrows", "lastrow",
            "fullrow", "nodiag", "isolated"]


def gen_pixels(rng, n, symm=True, pattern=None, values="int", vmax=50, zeros=0.0):
    """Return {(i,j): v}; symmetric-upper keeps i<=j. zeros: fraction of stored pixels whose value is 0
    (explicitly stored zero counts are valid records and must be kept like any other)."""
    if pattern is None:
        pattern = PATTERNS[int(rng.integers(len(PATTERNS)))]
    M = np.zeros((n, n), dtype=bool)
    if n == 0 or pattern == "empty":
        pass
    elif pattern == "diag":
        M[np.arange(n), np.arange(n)] = rng.random(n) < 0.8
    elif pattern == "dense":
        M[:] = True
    elif pattern.startswith("sparse"):
        M = rng.random((n, n)) < int(pattern[6:]) / 100.0
    elif pattern == "emptyrows":
        M = rng.random((n, n)) < 0.5
        dead = rng.random(n) < 0.4
        M[dead, :] = False
        if symm:
            M[:, dead] = False
    elif pattern == "lastrow":
        M[n - 1, :] = True
        M[:, n - 1] = True
    elif pattern == "fullrow":
        M = rng.random((n, n)) < 0.15
        r = int(rng.integers(n))
        M[r, :] = True
        M[:, r] = True
    elif pattern == "nodiag":
        M = rng.random((n, n)) < 0.5
        M[np.arange(n), np.arange(n)] = False
    elif pattern == "isolated":
        M = rng.random((n, n)) < 0.3
        for r in rng.permutation(n)[: max(1, n // 4)]:
            M[r, :] = False
            M[:, r] = False
            M[r, r] = True
    else:
        raise ValueError(pattern)
    P = {}
    ii, jj = np.nonzero(M)
    for i, j in zip(ii.tolist(), jj.tolist()):
        if symm and i > j:
            continue
        P[(i, j)] = gen_value(rng, values, vmax)
        if zeros and rng.random() < zeros:
            P[(i, j)] = 0 if values != "dyadic" else 0.0
    return P


def gen_value(rng, kind, vmax=50):
    if kind == "int":
        return int(rng.integers(1, vmax + 1))
    if kind == "dyadic":
        return float(int(rng.integers(1, 8 * vmax + 1))) / 8.0
    if kind == "one":
        return 1
    raise ValueError(kind)


def pixels_frame(P, extra=None, count_dtype=None):
    """Sorted DataFrame of a PixelDict. `extra`: {name: {(i,j): v}}."""
    keys = sorted(P)
    df = pd.DataFrame({
        "bin1_id": np.array([k[0] for k in keys], dtype=np.int64),
        "bin2_id": np.array([k[1] for k in keys], dtype=np.int64),
        "count": np.array([P[k] for k in keys], dtype=count_dtype) if keys or count_dtype
        else np.array([], dtype=np.int64),
    })
    if extra:
        for name, E in extra.items():
            df[name] = [E[k] for k in keys] if keys else np.array([], dtype=float)
    return df


def random_cuts(rng, n, kmax=6, allow_empty=True):
    """Chunk boundaries 0=c0<=c1<=...<=ck=n (repetition => empty chunks)."""
    k = int(rng.integers(1, kmax + 1))
    if n == 0:
        return [0] * (k + 1)
    if allow_empty:
        cuts = np.sort(rng.integers(0, n + 1, size=k - 1)).tolist()
    else:
        cuts = sorted(set(rng.integers(1, n, size=k - 1).tolist())) if n > 1 else []
    return [0] + cuts + [n]


def chunk_frames(df, cuts):
    return [df.iloc[a:b].reset_index(drop=True) for a, b in zip(cuts[:-1], cuts[1:])]


def gen_coarse_trap_bt(rng, k):
    """Variable-width table whose k-coarsening has uniform width W in all but the last coarse bin
    of the FIRST chromosome, which is longer than W and contains an old bin that starts at or
    beyond (its start + W). The last chromosome ends in a coarse bin no wider than W."""
    W = int(rng.integers(k, 4 * k + 1))

    def comp(total, parts):
        cuts = sorted(rng.choice(np.arange(1, total), size=parts - 1, replace=False).tolist()) if parts > 1 else []
        e = [0] + cuts + [total]
        return [b - a for a, b in zip(e[:-1], e[1:])]
    bt = []
    nch = int(rng.integers(2, 4))
    for ci in range(nch):
        widths = []
        for _ in range(int(rng.integers(1, 4))):
            widths += comp(W, k) if W > k else [1] * k
        if ci == 0:
            first = W + int(rng.integers(0, 4))
            widths += [first] + [int(rng.integers(1, 4)) for _ in range(k - 1)]
        else:
            last_total = int(rng.integers(1, W + 1))
            parts = int(rng.integers(1, min(k, last_total) + 1))
            widths += comp(last_total, parts) if last_total > 1 or parts == 1 else [last_total]
        edges = [0] + np.cumsum(widths).tolist()
        bt.append([NAMES[ci], [int(x) for x in edges]])
    return bt


def gen_giant_bt(rng):
    """Genome longer than 2**31 bp in total (every chromosome below 2**31, as int32 coordinates
    require) with a handful of variable-width bins per chromosome."""
    nch = int(rng.integers(2, 4))
    bt = []
    for ci in range(nch):
        L = int(rng.integers(1_000_000_000, 2_000_000_000))
        nb = int(rng.integers(2, 6))
        cuts = sorted(set(int(x) for x in rng.integers(1, L, size=nb - 1)))
        bt.append([NAMES[ci], [0] + cuts + [L]])
    return bt


def blacklist_bed(rng, bt, ids):
    """BED lines (chrom, start, end) whose overlap with the bin table is exactly the bins `ids`: runs of adjacent
    bins are sometimes merged into one interval, interval ends are bin-aligned or moved strictly inside the first /
    last bin, fully covered chromosomes are sometimes written as (chrom, 0, length). Always >= 2 lines (a one-line
    file is taken for a header by csv.Sniffer, DESIGN O6)."""
    bl = bt_bins_list(bt)
    ids = sorted(set(int(i) for i in ids))
    runs = []
    for b in ids:
        if runs and runs[-1][-1] == b - 1 and bl[b][0] == bl[b - 1][0] and rng.random() < 0.6:
            runs[-1].append(b)
        else:
            runs.append([b])
    lines = []
    for r in runs:
        ch, s, _ = bl[r[0]]
        e = bl[r[-1]][2]
        w0 = bl[r[0]][2] - bl[r[0]][1]
        w1 = bl[r[-1]][2] - bl[r[-1]][1]
        d1 = int(rng.integers(0, w0)) if rng.random() < 0.4 else 0
        d2 = int(rng.integers(0, w1)) if rng.random() < 0.4 else 0
        if len(r) == 1 and d1 + d2 >= w0:
            d1 = d2 = 0
        lines.append((ch, s + d1, e - d2))
    while 0 < len(lines) < 2:
        lines.append(lines[0])
    order = rng.permutation(len(lines))
    return [lines[int(i)] for i in order]


def write_blacklist_bed(rng, path, lines):
    """Write the BED lines, sometimes under a first line as BED files in the wild carry it:
    a '#'-commented column header or a plain column header (both are meant to be skipped by the reader)."""
    head = ["", "", "#chrom\tstart\tend\n", "chrom\tstart\tend\n"][int(rng.integers(4))]
    with open(path, "w") as fh:
        fh.write(head)
        fh.writelines(f"{a}\t{b}\t{e}\n" for a, b, e in lines)
    return {"": "none", "#chrom\tstart\tend\n": "hash-comment-header", "chrom\tstart\tend\n": "plain-header"}[head]
