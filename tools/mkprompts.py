#!/venv/bin/python
"""dev helper: write the self-contained prompts for a round of independently seeded changes.

  mkprompts.py <seed_root> [extra_meta_root ...]

For every property: <seed_root>/prop_<ID>.json (the property text as given, nothing else from /verif),
<seed_root>/PROMPT_<ID>.txt, and a scratch worktree <seed_root>/<ID> of /repo's HEAD.  The prompt lists one-line
summaries of the changes other sub-agents already wrote for this property (taken from their own meta.json), so that
a new agent picks other mechanisms; it says nothing about how /verif checks anything.
"""
import glob, json, os, subprocess, sys

V = os.path.dirname(os.path.dirname(os.path.abspath(__file__)))
root = sys.argv[1]
extra = sys.argv[2:]
os.makedirs(root, exist_ok=True)
head = subprocess.run(["git", "-C", "/repo", "rev-parse", "HEAD"], stdout=subprocess.PIPE).stdout.decode().strip()

TEMPLATE = open(os.path.join(V, "tools", "seed_prompt.txt")).read()

for line in open(os.path.join(V, "properties.jsonl")):
    prop = json.loads(line)
    ID = prop["id"]
    if os.environ.get("ONLY") and ID not in os.environ["ONLY"].split(","):
        continue
    json.dump(prop, open(f"{root}/prop_{ID}.json", "w"), indent=1)
    taken = []
    for m in sorted(glob.glob(os.path.join(V, "seeded", f"{ID}-*", "meta.json"))):
        s = json.load(open(m)).get("summary")
        if s:
            taken.append(s)
    for r in extra:
        f = f"{r}/{ID}/out/meta.json"
        if os.path.exists(f):
            for x, ch in sorted(json.load(open(f)).get("changes", {}).items()):
                if ch.get("summary"):
                    taken.append(ch["summary"])
    tl = "\n".join("- " + " ".join(t.split())[:260] for t in taken)
    w = f"{root}/{ID}"
    open(f"{root}/PROMPT_{ID}.txt", "w").write(
        TEMPLATE.replace("@W@", w).replace("@ROOT@", root).replace("@ID@", ID).replace("@N@", str(len(taken)))
        .replace("@TAKEN@", tl))
    if not os.path.isdir(w):
        subprocess.run(["git", "-C", "/repo", "worktree", "add", "--detach", "-q", w, head], check=True)
    print(ID, len(taken), "taken")
