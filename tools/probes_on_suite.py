#!/venv/bin/python
"""dev helper (DESIGN 3.11): run the repository's own test suite with every probe attached.
A probe that fires here is either too strict or a defect the tests do not assert: read the witness.

  tools/probes_on_suite.py [pytest args...]
"""
import json
import os
import shutil
import sys
import tempfile

V = os.path.dirname(os.path.dirname(os.path.abspath(__file__)))
sys.path.insert(0, V)
os.environ["COOLER_VERIF"] = "1"
tmp = tempfile.mkdtemp(prefix="probes-suite-", dir="/dev/shm")
os.environ["TMPDIR"] = tmp
tempfile.tempdir = tmp

from mon import probes  # noqa: E402
from mon.core import Ctx  # noqa: E402

ctx = Ctx("SUITE", "quick", 0, {"id": 0}, tmp)
ALL = {"rlencode", "index_pixels", "index_bins", "create_exit", "write_pixels", "get_binsize", "region_to_extent",
       "get_spans", "filllower", "merge_breakpoints", "merger_iter", "greedy_prune", "coarsener_init",
       "multiplier_sequence"}
probes.activate(ctx, owned=ALL)
for fn in (probes.probe_rlencode, probes.probe_indexes, probes.probe_create_exit, probes.probe_write_pixels,
           probes.probe_get_binsize, probes.probe_region_to_extent, probes.probe_get_spans, probes.probe_filllower,
           probes.probe_merge, probes.probe_coarsen, probes.probe_multiplier_sequence, probes.probe_balance_pipeline):
    fn()

import pytest  # noqa: E402

os.chdir("/repo")
rc = pytest.main(["-q", "-p", "no:cacheprovider", "--timeout=900", "-x", "--no-cov",
                  "--deselect", "tests/test_create.py::test_roundtrip"] + sys.argv[1:] + ["tests"])
probes.collect_worker_events(ctx)
print("\npytest rc:", rc)
print("probe evaluations:", json.dumps(dict(sorted(ctx.probe_counts.items()))))
recs = ctx.alerts + ctx.failures
print("probe failures:", len(recs))
seen = {}
for r in recs:
    seen.setdefault(r["key"], []).append(r)
for k, v in seen.items():
    print(f"  {k}  x{len(v)}: {v[0]['what'][:300]}")
shutil.rmtree(tmp, ignore_errors=True)
sys.exit(1 if recs or rc not in (0,) else 0)
