#!/venv/bin/python
"""dev helper: run the repo's baseline suite (guard off) and compare with BASELINE.json stable_pass."""
import json, os, subprocess, sys, tempfile
import xml.etree.ElementTree as ET
out = tempfile.mktemp(suffix=".xml", dir="/dev/shm")
env = dict(os.environ); env.pop("COOLER_VERIF", None)
env["TMPDIR"] = tempfile.mkdtemp(prefix="baseline-", dir="/dev/shm")
args = sys.argv[1:]
p = subprocess.run(["/venv/bin/python", "-m", "pytest", "-ra", "-q", "-p", "no:cacheprovider", "--timeout=900",
                    "--continue-on-collection-errors", f"--junitxml={out}", "-n", "8"] + args if False else
                   ["/venv/bin/python", "-m", "pytest", "-ra", "-q", "-p", "no:cacheprovider", "--timeout=900",
                    "--continue-on-collection-errors", f"--junitxml={out}"] + args,
                   cwd="/repo", env=env, stdout=subprocess.PIPE, stderr=subprocess.STDOUT)
base = json.load(open("/root/.vp/BASELINE.json"))
passed = set()
failed = set()
for tc in ET.parse(out).getroot().iter("testcase"):
    name = f"{tc.get('classname')}::{tc.get('name')}"
    if tc.find("failure") is None and tc.find("error") is None and tc.find("skipped") is None:
        passed.add(name)
    elif tc.find("skipped") is None:
        failed.add(name)
os.remove(out)
import shutil; shutil.rmtree(env["TMPDIR"], ignore_errors=True)
missing = sorted(set(base["stable_pass"]) - passed) if not args else sorted(failed)
print(f"passed={len(passed)} failed={len(failed)} baseline={len(base['stable_pass'])} missing_from_baseline={len(missing)}")
for m in missing:
    print("  MISSING:", m)
if missing:
    print(p.stdout.decode()[-6000:])
sys.exit(1 if missing else 0)
