#!/venv/bin/python
"""Re-run the quick checks against every kept seeded change (a regression run of the machinery itself).

  tools/seedregress.py [--stream K/N] [NAME...]

For each seeded/<NAME>/: a scratch worktree of /repo HEAD (under /tmp, removed at the end) gets patch.diff applied,
the checks named in meta.json's check_results (quick tier) run against it through COOLER_VERIF_REPO, and the
result (rc, mechanism keys) replaces the stored one. Exit 1 if some change is no longer caught by any listed check.
"""
import glob, json, os, subprocess, sys

V = os.path.dirname(os.path.dirname(os.path.abspath(__file__)))


def sh(cmd, cwd, env=None, timeout=7200):
    e = dict(os.environ)
    if env:
        e.update(env)
    p = subprocess.run(cmd, cwd=cwd, env=e, stdout=subprocess.PIPE, stderr=subprocess.STDOUT, timeout=timeout)
    return p.returncode, "\n".join(l for l in p.stdout.decode("utf8", "replace").splitlines() if "conda.cli.condarc" not in l)


def main():
    args = sys.argv[1:]
    k, n = 0, 1
    if "--stream" in args:
        i = args.index("--stream")
        k, n = (int(x) for x in args[i + 1].split("/"))
        args = args[:i] + args[i + 2:]
    names = args or sorted(os.path.basename(d) for d in glob.glob(os.path.join(V, "seeded", "C*-*")))
    names = [x for j, x in enumerate(names) if j % n == k]
    w = f"/tmp/seedv/REG{os.environ.get('REGNAME', k)}"
    head = subprocess.run(["git", "-C", "/repo", "rev-parse", "HEAD"], stdout=subprocess.PIPE).stdout.decode().strip()
    if not os.path.isdir(w):
        os.makedirs("/tmp/seedv", exist_ok=True)
        subprocess.run(["git", "-C", "/repo", "worktree", "add", "--detach", "-q", w, head], check=True)
    missed = []
    try:
        for name in names:
            d = os.path.join(V, "seeded", name)
            meta = json.load(open(d + "/meta.json"))
            sh(["git", "checkout", "-q", "--", "."], w)
            sh(["git", "checkout", "-q", "--detach", head], w)
            rc, out = sh(["git", "apply", d + "/patch.diff"], w)
            if rc != 0:
                print(f"{name}: patch does not apply: {out[:200]}", flush=True)
                missed.append(name)
                continue
            props = sorted({key.split(":")[0] for key in meta.get("check_results", {})}) or [meta["property"]]
            results = {}
            for p in props:
                rc, out = sh([os.path.join(V, "check"), p, "--tier", "quick", "--no-evidence"], V, {"COOLER_VERIF_REPO": w})
                lines = [l for l in out.splitlines() if l.startswith(("VIOLATION", "INCONCLUSIVE", "  key=")) or "verdict=" in l]
                results[f"{p}:quick"] = {"rc": rc, "lines": lines[:12]}
            meta["check_results"] = results
            meta["check_results_head"] = subprocess.run(["git", "-C", V, "rev-parse", "--short", "HEAD"],
                                                        stdout=subprocess.PIPE).stdout.decode().strip()
            json.dump(meta, open(d + "/meta.json", "w"), indent=1)
            caught = any(r["rc"] == 1 for r in results.values())
            print(f"{name}: " + "; ".join(f"{p} rc={r['rc']}" for p, r in results.items()) + ("" if caught else "   <-- NOT CAUGHT"),
                  flush=True)
            if not caught:
                missed.append(name)
    finally:
        subprocess.run(["git", "-C", "/repo", "worktree", "remove", "--force", w])
    print("not caught:", missed)
    return 1 if missed else 0


if __name__ == "__main__":
    sys.exit(main())
