# property table for mkmanifest.py  (add(pid, technique, text, design_ref))
add("C19", "reference-parser oracle over generated + exhaustively enumerated strings",
    "Every generated well-formed region string (and every <=3-decimal mantissa x unit below the tier bound, "
    "enumerated exhaustively) is parsed by the real parser and compared with an independent Decimal-based "
    "denotation; each malformed class must raise ValueError; URI spellings must split identically; string "
    "and tuple fetches must agree on real coolers. Exploration: inputs are sampled apart from the stated bound.",
    "DESIGN.md section 4 C19")
add("C20", "reference-model oracle + postcondition probe on get_binsize; exhaustive enumeration of small bin tables",
    "binnify / makebins / parse_bins outputs are compared with ref_binnify on generated chromosome-size tables; "
    "get_binsize / get_chromsizes are driven over ALL valid bin tables inside the tier bound and over generated "
    "tables of every family (incl. last-bin-longer trap tables), a probe on the real get_binsize checks "
    "'returned b => every bin is [k*b, min((k+1)b, len))' on every call any workload makes, and Cooler.binsize / "
    "info['bin-type'] are checked on created coolers. Exhaustive inside the bound, sampled outside.",
    "DESIGN.md section 4 C20")
add("C04", "linear-scan overlap oracle over exhaustively enumerated (start,end) on real coolers",
    "For each generated bin table a real cooler is created; for every chromosome up to the tier's length bound "
    "every (start,end) is driven through extent/offset/bins.fetch/pixels.fetch/matrix.fetch/"
    "GenomeSegmentation.fetch/bedslice in several region spellings and compared with an independent linear "
    "scan over the bin list and with the dense reference matrix; a probe on region_to_extent asserts the "
    "extent never leaves the chromosome. Exhaustive for small chromosomes, edge-biased sampling above.",
    "DESIGN.md section 4 C04")
add("C03", "dense reference-matrix oracle over exhaustively enumerated windows; tiling probes on get_spans / FillLower sub-boxes",
    "For every generated matrix (both storage modes) every window in [0,n]^4 up to the tier bound is queried through "
    "the real engine in dense, sparse and pixel form for chunk sizes 1..>nnz and compared with the slice of a dense "
    "matrix built from the generated pixels (sparse results also for repeated coordinates, pixel results for exact "
    "storage order and row ids); slice spellings and store forms go through Cooler.matrix. Probes assert that row "
    "spans cover all stored rows and that the fill-lower sub-boxes tile the query box. Exhaustive for n within the "
    "bound, diagonal-biased sampling above it.",
    "DESIGN.md section 4 C03")
