# property table for mkmanifest.py  (add(pid, technique, text, design_ref))
add("C19", "reference-parser oracle over generated + exhaustively enumerated strings",
    "Every generated well-formed region string (and every <=3-decimal mantissa x unit below the tier bound, "
    "enumerated exhaustively) is parsed by the real parser and compared with an independent Decimal-based "
    "denotation; each malformed class must raise ValueError; URI spellings must split identically; string "
    "and tuple fetches must agree on real coolers. Exploration: inputs are sampled apart from the stated bound.",
    "DESIGN.md section 4 C19")
add("C20", "reference-model oracle + postcondition probe on get_binsize; exhaustive enumeration of small bin tables",
    "binnify / makebins / parse_bins outputs are compared with ref_binnify on generated chromosome-size tables; "
    "get_binsize / get_chromsizes are driven over ALL valid bin tables inside the tier bound and over generated "
    "tables of every family (incl. last-bin-longer trap tables), a probe on the real get_binsize checks "
    "'returned b => every bin is [k*b, min((k+1)b, len))' on every call any workload makes, and Cooler.binsize / "
    "info['bin-type'] are checked on created coolers. Exhaustive inside the bound, sampled outside.",
    "DESIGN.md section 4 C20")
add("C04", "linear-scan overlap oracle over exhaustively enumerated (start,end) on real coolers",
    "For each generated bin table a real cooler is created; for every chromosome up to the tier's length bound "
    "every (start,end) is driven through extent/offset/bins.fetch/pixels.fetch/matrix.fetch/"
    "GenomeSegmentation.fetch/bedslice in several region spellings and compared with an independent linear "
    "scan over the bin list and with the dense reference matrix; a probe on region_to_extent asserts the "
    "extent never leaves the chromosome. Exhaustive for small chromosomes, edge-biased sampling above.",
    "DESIGN.md section 4 C04")
add("C03", "dense reference-matrix oracle over exhaustively enumerated windows; tiling probes on get_spans / FillLower sub-boxes",
    "For every generated matrix (both storage modes) every window in [0,n]^4 up to the tier bound is queried through "
    "the real engine in dense, sparse and pixel form for chunk sizes 1..>nnz and compared with the slice of a dense "
    "matrix built from the generated pixels (sparse results also for repeated coordinates, pixel results for exact "
    "storage order and row ids); slice spellings and store forms go through Cooler.matrix. Probes assert that row "
    "spans cover all stored rows and that the fill-lower sub-boxes tile the query box. Exhaustive for n within the "
    "bound, diagonal-biased sampling above it.",
    "DESIGN.md section 4 C03")
add("C01", "reference-model oracle (PixelDict/Dense) at the API boundary over generated creation configurations",
    "Each generated configuration (bin-table family x sparsity x storage mode x input form incl. empty chunks and "
    "ArrayLoader x dtypes/extra columns x HDF5 filters x destination x metadata) is created with the real "
    "create_cooler and read back through pixels(), matrix() dense/sparse/as_pixels and info via path, URI and open "
    "handle; every value, dtype, index and metadata item is compared with the generated input. A conservation probe "
    "on write_pixels checks nnz/total against the chunks consumed. Sampled inputs; evidence lists classes hit.",
    "DESIGN.md section 4 C01")
add("C02", "invariant at a hook: raw-h5py schema validator at every create() exit + final file scan; rlencode shadow probe",
    "An exit hook on the real create() (all producers funnel through it, incl. temp chunk coolers, zoom levels, scool "
    "cells, CLI loaders) re-opens each written collection with raw h5py and validates every clause of schema_v3 "
    "(lengths vs nnz, strict order, range, triangularity, both offset indexes vs searchsorted, nbins/nchroms/sum, "
    "bin-type/bin-size truthfulness, chroms/length vs last bins). Workloads: C01 inputs, random operation histories, "
    "rlencode across block edges (function level, shadow re-execution with small blocks on every real call) and "
    "three >1e6-pixel files placing the 1e6 block edge inside/on/one past a run start.",
    "DESIGN.md section 4 C02")
add("C06", "in-memory fold oracle over executions of one record multiset; partition/epoch probes; tempfile audit hook",
    "For each generated record multiset (pixels repeated across chunks) the real unordered ingestion is executed under "
    "many partitions, chunk orders, mergebuf values from 1 and max_merge values from 1 (single-pass and two-pass), "
    "sorted or ensure_sorted; the raw pixel table of every execution must equal one exact in-memory fold. Probes "
    "check that merge_breakpoints is a strictly increasing partition and that merge epochs are sorted, duplicate-free "
    "and disjoint. A sys.addaudithook on tempfile.mkstemp plus a fresh-directory listing decide the temp-file clause. "
    "CLI shards run `cooler cload pairs` with value fields and aggregates over --chunksize 1..>n and compare with the "
    "aggregate over all records of each pixel (non-sum aggregates: known finding F33).",
    "DESIGN.md section 4 C06")
add("C07", "fold-of-generated-dicts oracle over merge executions (orders x buffers x aggregations x nesting); refusal and overflow drivers",
    "Input coolers (1..5, incl. empty, identical/disjoint supports, mixed int/float value dtypes) are merged by the real "
    "merge_coolers under permutations of the inputs, mergebuf from 1 record, sum/max/min/mean and nested merges; the raw "
    "pixel table, the sum attribute and cross-execution content digests are compared with an exact fold. Incompatible "
    "pairs of every kind must raise and leave no cooler; integer aggregates beyond int32/uint16/int16/uint8 must raise or "
    "be stored exactly. Probes check the merge partition and epoch disjointness on every real call.",
    "DESIGN.md section 4 C07")
add("C08", "index-arithmetic reference (ref_coarsen) over executions x schedules; partition probes; real pools with injected delays",
    "Each generated base cooler (all bin-table families incl. tables whose coarsening looks uniform but is not, both "
    "modes, 1-2 value columns) is coarsened by the real code for several factors (incl. > bins of a chromosome), chunk "
    "sizes from 1 and schedules: sequential, real multiprocess pools (2-8 workers, per-task delays, completion orders "
    "recorded) and CoolerCoarsener under adversarial ordered map functors. Bin table, pixel table, total and mode are "
    "compared with ref_coarsen; all executions of one base must be content-identical; chains k1,k2 vs k1*k2 and "
    "coarsen/merge commutation are checked; probes assert chunk edges never split a coarse row.",
    "DESIGN.md section 4 C08")
add("C09", "direct-from-base reference oracle on every zoom level + layout/recognition checks; CLI spec expansion oracle",
    "After the real zoomify_cooler / `cooler zoomify` returns, the level listing, is_multires_file, each base level "
    "(digest vs its source) and each derived level (vs ref_coarsen computed directly from the base, so the predecessor "
    "chain used is irrelevant) are checked, plus the schema validator per level; resolution sets cover any order, "
    "missing base, mixed predecessors, duplicates, non-derivable members (must raise), one or two bases, reused output "
    "paths, chunk sizes and worker counts; -r spellings are expanded by an independent implementation. A probe checks "
    "get_multiplier_sequence consistency.",
    "DESIGN.md section 4 C09")
add("C05", "fate-tagged record generator + linear-scan binning reference over API, text loaders and tabix loader",
    "Records are generated with their intended fate (valid / unlisted chromosome / out of range) and positions on "
    "every bin edge +-1, 0, length-1, length, length+1, -1, both orientations, zero/one-based, reflect/drop/none, "
    "sided extra fields, shuffled and re-chunked; they are driven through sanitize_records+aggregate_records, "
    "sanitize_pixels, `cooler cload pairs`, `cooler load -f bg2|coo` (plain/.gz) and TabixAggregator (bgzip+index "
    "built with pysam); pixel counts, totals, order independence, sided-field swaps and rejections are compared "
    "with a reference fold that uses a linear bin scan. One known finding (pos == length accepted) is listed.",
    "DESIGN.md section 4 C05")
add("C12", "raw x w_i x w_j oracle from generated weights over exhaustive/sampled windows, all output forms and weight conventions",
    "Coolers get 1-3 weight columns (weight/KR/VC/VC_SQRT/custom; as creation-time bin columns or stored by "
    "balance_cooler) with per-bin distinct values and NaNs; every window up to the tier bound (sampled above, incl. "
    "rectangular and empty ones) is read balanced through Cooler.matrix in dense, sparse and pixel form (join or not) "
    "with balance=True|name and divisive_weights None/True/False and compared (rtol 1e-12, exact NaN pattern) with the "
    "product computed from the generated raw matrix and weights; a missing column must raise; `cooler dump -b` is "
    "parsed and compared the same way.",
    "DESIGN.md section 4 C12")
add("C14", "raw-h5py table oracle over selector ranges/columns; per-row annotate oracle over bin-table forms incl. every covering part",
    "Selectors chroms()/bins()/pixels() are sliced with positive, negative, open, empty and scalar ranges and column "
    "subsets on enum- and integer-encoded coolers and compared row-for-row (values and labels) with the stored tables "
    "read by raw h5py; annotate() is driven with ordered/shuffled/re-indexed/one-sided/empty/oversized pixel subsets "
    "against the bin table given whole, as selector and as every (sampled when many) contiguous part containing the "
    "needed bins, checking each attached coordinate, order and index; pixels(join=True) is checked likewise.",
    "DESIGN.md section 4 C14")
add("C17", "per-cell PixelDict oracle + HDF5 object-address sharing check + schema validator on real scool files",
    "Generated single-cell files (1-8 cells, different matrices incl. empty ones, tricky names, common or per-cell bin "
    "tables with extra columns, both modes) are created with create_scool; the cell listing, recognition, each cell's "
    "pixels/matrix/info through Cooler(file::/cells/x), sharing of bins/chrom,start,end by HDF5 object address, "
    "per-cell extra columns and schema validity of every cell are checked against the generated inputs.",
    "DESIGN.md section 4 C17")
add("C18", "before/after snapshots and raw digests over renaming chains, on the live object and after reopening",
    "For generated coolers (enum/int encodings) chains of partial renamings (swaps, longer/shorter names, renaming "
    "back, reused names) are applied with rename_chroms; after every step names, chromosome table, bin labels and "
    "categories, every per-chromosome query (extent, bins/pixels/matrix fetch, balanced, two-region) under the mapped "
    "names, rejection of dropped names, the raw digest of all non-name data and schema validity are checked on the "
    "same object (path-, option- and handle-backed; selectors made before the rename) and on a fresh Cooler; chains "
    "through alternating cells of a single-cell file are judged for the cell the rename went through.",
    "DESIGN.md section 4 C18")
add("C13", "fault enumeration: invalid records x every chunk/position, iterator exceptions before every chunk, sys.monitoring LINE failpoints at every executed writer line, os._exit at chunk boundaries; raw-digest neighbour oracle",
    "Destinations of six kinds (new file root/nested, root of a populated non-cooler file, new group, existing empty "
    "group, existing non-cooler group) next to 0-3 neighbour collections and foreign groups/datasets/attributes are "
    "written by ordered/unordered create, merge and coarsen while one fault is injected: each invalid record kind at "
    "every chunk index and first/middle/last position, an iterator exception before every chunk, an exception at every "
    "executed source line of the writer/index/info/merge/coarsen code (PEP 669 LINE failpoints; quick: stratified "
    "sample + the whole index/info phase, thorough: all), or process exit at chunk boundaries in a subprocess. After "
    "each: BadInputError for invalid input, destination not recognised/listed, all neighbour digests, the listing and "
    "foreign objects unchanged. Faults planned but not delivered make the case inconclusive.",
    "DESIGN.md section 4 C13", level="fault_enumeration")
add("C15", "inode-like FileModel replayed alongside random operation histories; raw digests, HDF5 object addresses and recognition probes after every step",
    "Random histories of create(a|w)/cp/mv/ln/ln -s/external link/cp --overwrite/re-create/cp-onto-occupied over two "
    "files (API and CLI, URIs with and without leading slash) are executed on real files while a small model tracks "
    "names -> objects -> content; after every step the listing, each path's raw content digest, object-address "
    "sharing of hard links vs copies, is_cooler on collection / foreign / dataset / missing-group / missing-file / "
    "non-HDF5 paths, `cooler ls`, and unrelated attributes/groups/datasets are compared with the model. Moves to the "
    "other file, and cp / mv of a root collection onto the free root of a populated file, are history steps too.",
    "DESIGN.md section 4 C15")
add("C16", "parsed-CLI-output vs reference rows over option vectors; dump->load round-trip digests; column-layout permutation driver",
    "`cooler dump` is run (in-process CliRunner and a sample through a real subprocess) on generated coolers over random "
    "vectors of -r/-r2/--fill-lower/--join/--balanced/--annotate/--one-based-ids/--one-based-starts/--header/-k and "
    "table dumps, parsed and compared with rows derived from the generated pixels, weights and bin table (an option that "
    "has no effect is named in the mechanism key); dump -> load -f coo|bg2 round trips (zero/one-based, symmetric/-N, "
    "loader chunk sizes from 1, both BINS spellings) must reproduce pixels and bin tables; the same records laid out "
    "at arbitrary non-monotone column numbers with nuisance columns are loaded via --field / -c1 -p1 -c2 -p2 and "
    "compared with the reference binning and per-pixel value sums.",
    "DESIGN.md section 4 C16")
add("C10", "flatness oracle on cooler's own returned weights + dense-procedure mask oracle over option vectors",
    "The real balance_cooler is run on generated symmetric coolers over option vectors (mode, ignore_diags, min_nnz, "
    "min_count, mad_max, blacklist, tol, max_iters, x0, rescale, chunk size). When convergence is reported, the NaN set "
    "is compared with a dense re-implementation of the documented filters (tie band on the MAD cutoff) and - "
    "independently of that reference - the row sums of w(x)w o A over retained bins, computed from the generated matrix "
    "and the RETURNED weights, must be flat: var <= 4*tol/scale^2, |mean-1| <= sqrt(4*tol)/scale (per chromosome in cis "
    "mode). Trans-only: literal clause is a listed known finding; the c-weighted invariant is checked. Evidence reports "
    "the maximum observed slack ratio.",
    "DESIGN.md section 4 C10")
add("C11", "history of executions (chunk sizes x map functors x real pools) checked offline: agreement, dense-procedure reference, exactly-once span log",
    "For each cooler/option vector the real balance_cooler is executed under chunk sizes 1..>nnz/None and map "
    "implementations: builtin, eager, reverse-evaluation, lazy generator, seeded permuted and bursty UNORDERED functors, "
    "and real multiprocess Pool.map/imap/imap_unordered with injected per-task delays; all weight vectors must agree "
    "with each other and with the dense reference (rtol 1e-9, NaN pattern), scale/converged too; probes on "
    "MultiplexDataPipe.reduce and chunkgetter log every pass and span fetched (incl. in workers) and an offline checker "
    "verifies fetched spans == keys and that they tile the pass's pixel range exactly once; split().pipe().reduce/"
    "gather is driven directly with counting pipelines. Evidence reports distinct completion orders and worker "
    "assignments observed.",
    "DESIGN.md section 4 C11")
