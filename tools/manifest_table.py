# property table for mkmanifest.py  (add(pid, technique, text, design_ref))
add("C19", "reference-parser oracle over generated + exhaustively enumerated strings",
    "Every generated well-formed region string (and every <=3-decimal mantissa x unit below the tier bound, "
    "enumerated exhaustively) is parsed by the real parser and compared with an independent Decimal-based "
    "denotation; each malformed class must raise ValueError; URI spellings must split identically; string "
    "and tuple fetches must agree on real coolers. Exploration: inputs are sampled apart from the stated bound.",
    "DESIGN.md section 4 C19")
