#!/bin/sh
# dev helper: validate MANIFEST.json and all evidence files against the schemas
python3-vt - <<'PY'
import json, jsonschema, glob
m=json.load(open('/verif/MANIFEST.json')); jsonschema.validate(m, json.load(open('/root/.vp/MANIFEST.schema.json'))); print("manifest valid")
sch=json.load(open('/root/.vp/EVIDENCE.schema.json'))
for p in sorted(glob.glob('/verif/evidence/*.json')):
    e=json.load(open(p)); jsonschema.validate(e, sch); print(p, "valid", e["coverage"]["verdict"], e["tier"])
PY
