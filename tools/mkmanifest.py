#!/venv/bin/python
"""Regenerate MANIFEST.json from the table below (only claimed = built checks)."""
import json
import os

V = os.path.dirname(os.path.dirname(os.path.abspath(__file__)))

TRUSTED = ("Trusted base: CPython 3.12, numpy/pandas/h5py as installed, the reference model and "
           "generators in /verif/mon (selftested by setup_cmd). Holds only on the executions observed.")

CHECKS = {}


def add(pid, technique, text, ref, note=None, level="exploration"):
    CHECKS[pid] = dict(technique=technique, text=text, ref=ref, note=note or TRUSTED, level=level)


exec(open(os.path.join(V, "tools", "manifest_table.py")).read())

NOT_APPLICABLE = globals().get("NOT_APPLICABLE", {})

checks = []
for pid in sorted(CHECKS):
    c = CHECKS[pid]
    checks.append({
        "property_id": pid,
        "quick_cmd": f"./check {pid} --tier quick",
        "thorough_cmd": f"./check {pid} --tier thorough",
        "evidence_file": f"/verif/evidence/{pid}.json",
        "replay_cmd_template": f"./check {pid} --replay {{path}}",
        "engine": "cooler-runtime-monitor",
        "level_claimed": {"category": c["level"], "text": c["text"], "design_ref": c["ref"]},
        "level_note": c["note"],
        "technique": c["technique"],
    })

props = [json.loads(l)["id"] for l in open(os.path.join(V, "properties.jsonl"))]
na = []
for pid in props:
    if pid not in CHECKS:
        na.append({"property_id": pid, "reason": NOT_APPLICABLE.get(
            pid, "check not built yet in this session (runtime monitoring applies; see DESIGN.md section 4)")})

doc = {
    "version": 1,
    "setup_cmd": "/venv/bin/python tools/setup.py",
    "hooks": {
        "guard": "COOLER_VERIF",
        "enable": "no source hooks in /repo: probes attach from /verif/mon at run time (attribute "
                  "rebinding, sys.monitoring, audit hooks) when COOLER_VERIF=1, which ./check sets",
        "baseline_off_cmd": "cd /repo && env -u COOLER_VERIF /venv/bin/python -m pytest -ra -q "
                            "-p no:cacheprovider --timeout=900 --continue-on-collection-errors",
        "source_commits": [],
        "add_only": True,
    },
    "engines": [{
        "name": "cooler-runtime-monitor",
        "path": "/verif/check",
        "serves_properties": sorted(CHECKS),
        "kind_free_text": "runtime monitoring: real cooler code driven by seeded/exhaustive hostile workloads "
                          "in fresh subprocess shards; independent reference-model oracles at the API boundary, "
                          "postcondition probes on internal functions, raw-h5py file-state inspection, "
                          "sys.monitoring failpoints, adversarial map schedules and real process pools",
    }],
    "checks": checks,
    "not_applicable": na,
    "notes": "See DESIGN.md. Exit codes: 0 held on what was observed, 1 VIOLATION, 2 INCONCLUSIVE. "
             "known_findings.json lists genuine defects (known / fixed) by mechanism key.",
}
with open(os.path.join(V, "MANIFEST.json"), "w") as f:
    json.dump(doc, f, indent=1)
    f.write("\n")
print("claimed:", sorted(CHECKS), "not claimed:", [x["property_id"] for x in na])
