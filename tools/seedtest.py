#!/venv/bin/python
"""dev helper for seeded changes produced by independent sub-agents.

  seedtest.py verify <ID> <x>          confirm in the scratch worktree /tmp/seed/<ID>: demo fails with the change,
                                       test suite passes with it, demo passes without it
  seedtest.py check  <ID> <x> [PROP..] run ./check PROP (default: ID) against the worktree with the change applied
                                       (COOLER_VERIF_REPO=<worktree>), then undo it
  seedtest.py keep   <ID> <x>          copy patch/demo/meta into /verif/seeded/<ID>-<x>/
"""
import json, os, shutil, subprocess, sys, tempfile

V = os.path.dirname(os.path.dirname(os.path.abspath(__file__)))
PY = "/venv/bin/python"


SEED_ROOT = os.environ.get("SEED_ROOT", "/tmp/seed2")
SEEDV = os.environ.get("SEEDV", "/tmp/seedv")
ROUND = {"/tmp/seed": 1, "/tmp/seed2": 2, "/tmp/seed3": 3, "/tmp/seed4": 4, "/tmp/seed5": 5, "/tmp/seed6": 6, "/tmp/seed7": 7}.get(SEED_ROOT, 9)


def src(ID):
    """the sub-agent's deliverables"""
    return f"{SEED_ROOT}/{ID}/out"


def kept_name(ID, x):
    # round 1: C01-a, C01-b; round 2: C01-c, C01-d; round 3: C01-e, C01-f
    if ROUND == 1:
        return f"{ID}-{x}"
    return f"{ID}-{chr(ord(x) + 2 * (ROUND - 1))}"


def wt(ID):
    """my own verification worktree (never the agent's), kept at /repo's HEAD"""
    w = f"{SEEDV}/{ID}"
    head = subprocess.run(["git", "-C", "/repo", "rev-parse", "HEAD"], stdout=subprocess.PIPE).stdout.decode().strip()
    if not os.path.isdir(w):
        os.makedirs(SEEDV, exist_ok=True)
        subprocess.run(["git", "-C", "/repo", "worktree", "add", "--detach", "-q", w, head], check=True)
    else:
        subprocess.run(["git", "-C", w, "checkout", "-q", "--", "."], check=False)
        subprocess.run(["git", "-C", w, "checkout", "-q", "--detach", head], check=True)
    return w


def sh(cmd, cwd, env=None, timeout=3600):
    e = dict(os.environ)
    if env:
        e.update(env)
    p = subprocess.run(cmd, cwd=cwd, env=e, stdout=subprocess.PIPE, stderr=subprocess.STDOUT, timeout=timeout)
    out = "\n".join(l for l in p.stdout.decode("utf8", "replace").splitlines() if "conda.cli.condarc" not in l)
    return p.returncode, out


def apply(ID, x, reverse=False):
    w = wt(ID)
    rc, out = sh(["git", "checkout", "--", "src"], w)
    if not reverse:
        rc, out = sh(["git", "apply", f"{src(ID)}/{x}.diff"], w)
        assert rc == 0, out
    rc, out = sh(["git", "status", "--short", "src"], w)
    return out


def env_for(ID):
    w = f"{SEEDV}/{ID}"
    os.makedirs(f"{w}/tmp", exist_ok=True)
    return {"PYTHONPATH": f"{w}/src", "TMPDIR": f"{w}/tmp"}


def verify(ID, x):
    w = wt(ID)
    res = {}
    apply(ID, x)
    rc, out = sh([PY, f"{src(ID)}/{x}_demo.py"], w, env_for(ID), 1200)
    res["demo_rc_with_change"] = rc
    res["demo_tail_with_change"] = out[-400:]
    rc, out = sh([PY, "-m", "pytest", "-q", "-p", "no:cacheprovider", "--timeout=900",
                  "--deselect", "tests/test_create.py::test_roundtrip", "tests"], w, env_for(ID), 3000)
    res["tests_rc_with_change"] = rc
    res["tests_summary"] = [l for l in out.splitlines() if " passed" in l or " failed" in l][-1:]
    apply(ID, x, reverse=True)
    rc, out = sh([PY, f"{src(ID)}/{x}_demo.py"], w, env_for(ID), 1200)
    res["demo_rc_without_change"] = rc
    res["ok"] = (res["demo_rc_with_change"] != 0 and res["tests_rc_with_change"] == 0 and rc == 0)
    print(json.dumps(res, indent=1))
    json.dump(res, open(f"{src(ID)}/{x}_verify.json", "w"), indent=1)
    return res["ok"]


def check(ID, x, props, tier="quick"):
    w = wt(ID)
    print(apply(ID, x))
    results = {}
    try:
        for p in props:
            rc, out = sh([os.path.join(V, "check"), p, "--tier", tier, "--no-evidence"], V,
                         {"COOLER_VERIF_REPO": w}, 7200)
            lines = [l for l in out.splitlines() if l.startswith(("VIOLATION", "INCONCLUSIVE", "KNOWN", "  key="))
                     or "verdict=" in l]
            print(f"--- {p} rc={rc}")
            print("\n".join(lines[:12]))
            results[p] = {"rc": rc, "lines": lines[:12]}
    finally:
        apply(ID, x, reverse=True)
    prev = {}
    f = f"{src(ID)}/{x}_check.json"
    if os.path.exists(f):
        prev = json.load(open(f))
    prev.update({f"{p}:{tier}": r for p, r in results.items()})
    json.dump(prev, open(f, "w"), indent=1)
    return results


def keep(ID, x):
    d = os.path.join(V, "seeded", kept_name(ID, x))
    os.makedirs(d, exist_ok=True)
    w = src(ID)
    shutil.copy(f"{w}/{x}.diff", f"{d}/patch.diff")
    shutil.copy(f"{w}/{x}_demo.py", f"{d}/demo.py")
    meta = json.load(open(f"{w}/meta.json"))
    ch = meta.get("changes", {}).get(x, {})
    ver = json.load(open(f"{w}/{x}_verify.json")) if os.path.exists(f"{w}/{x}_verify.json") else {}
    chk = json.load(open(f"{w}/{x}_check.json")) if os.path.exists(f"{w}/{x}_check.json") else {}
    out = {"property": ID, "summary": ch.get("summary"), "needs_to_manifest": ch.get("needs"),
           "files": ch.get("files"), "author": f"independent sub-agent (round {ROUND}) given only the property text" + (
               " and one-line summaries of the earlier rounds' changes for this property, to avoid duplicates" if ROUND > 1 else ""),
           "confirmed_by_me": ver,
           "what_i_ran": [f"tools/seedtest.py verify {ID} {x}  (scratch worktree: demo with/without change, full test suite with change)",
                          f"tools/seedtest.py check {ID} {x} ...  (./check against the worktree with the change applied via COOLER_VERIF_REPO)"],
           "check_results": chk}
    json.dump(out, open(f"{d}/meta.json", "w"), indent=1)
    print("kept", d)


if __name__ == "__main__":
    cmd, ID, x = sys.argv[1:4]
    rest = sys.argv[4:]
    tier = "quick"
    if "--tier" in rest:
        i = rest.index("--tier"); tier = rest[i + 1]; rest = rest[:i] + rest[i + 2:]
    if cmd == "verify":
        sys.exit(0 if verify(ID, x) else 1)
    elif cmd == "check":
        check(ID, x, rest or [ID], tier)
    elif cmd == "keep":
        keep(ID, x)
