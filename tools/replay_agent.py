#!/venv/bin/python
"""dev helper: rebuild a sub-agent's deliverables (out/*.diff, *_demo.py, meta.json) from its recorded transcript.

The round-5 seeded changes lived only under /tmp when the session that produced them was interrupted; the sub-agent
transcripts survived.  This replays, in order and for real, every Edit / Write / Bash tool call of one transcript in a
fresh scratch worktree at the same path and commit the agent had, so `git diff > out/a.diff` etc. run again.

  replay_agent.py <transcript.jsonl> <ID> <seed_root> <commit>
"""
import json, os, subprocess, sys

tr, ID, root, commit = sys.argv[1:5]
w = f"{root}/{ID}"
if not os.path.isdir(w):
    os.makedirs(root, exist_ok=True)
    subprocess.run(["git", "-C", "/repo", "worktree", "add", "--detach", "-q", w, commit], check=True)
seen = set()
cwd = w
log = open(f"{root}/replay_{ID}.log", "w")
n = {"Edit": 0, "Write": 0, "Bash": 0, "fail": 0}
for line in open(tr):
    d = json.loads(line)
    c = d.get("message", {}).get("content")
    if not isinstance(c, list):
        continue
    for b in c:
        if b.get("type") != "tool_use" or b["id"] in seen:
            continue
        seen.add(b["id"])
        name, inp = b["name"], b["input"]
        if name == "Edit":
            p = inp["file_path"]
            try:
                s = open(p).read()
                old, new = inp["old_string"], inp["new_string"]
                k = s.count(old)
                if k == 0 or (k > 1 and not inp.get("replace_all")):
                    raise ValueError(f"old_string occurs {k} times")
                s = s.replace(old, new) if inp.get("replace_all") else s.replace(old, new, 1)
                open(p, "w").write(s)
                n["Edit"] += 1
            except Exception as e:
                n["fail"] += 1
                print("EDIT-FAIL", p, e, file=log)
        elif name == "Write":
            p = inp["file_path"]
            os.makedirs(os.path.dirname(p), exist_ok=True)
            open(p, "w").write(inp["content"])
            n["Write"] += 1
        elif name == "Bash":
            cmd = inp["command"]
            if inp.get("run_in_background"):
                print("SKIP-BG", cmd[:200], file=log)
                continue
            full = f"cd {cwd} 2>/dev/null; {cmd}\n__rc=$?; pwd > {root}/.cwd_{ID}; exit $__rc"
            try:
                r = subprocess.run(["bash", "-c", full], stdout=subprocess.PIPE, stderr=subprocess.STDOUT, timeout=1800)
                print("BASH rc=%d %s\n%s\n" % (r.returncode, cmd[:300].replace("\n", " | "),
                                              r.stdout.decode("utf8", "replace")[-600:]), file=log)
            except subprocess.TimeoutExpired:
                print("BASH TIMEOUT", cmd[:300], file=log)
            try:
                cwd = open(f"{root}/.cwd_{ID}").read().strip() or cwd
            except OSError:
                pass
            n["Bash"] += 1
        log.flush()
print(ID, n, sorted(os.listdir(f"{w}/out")) if os.path.isdir(f"{w}/out") else "NO out/")
