#!/bin/sh
# dev helper: run every check of a tier sequentially; prints one summary line per property
TIER=${1:-quick}; shift
cd /verif
for p in C01 C02 C03 C04 C05 C06 C07 C08 C09 C10 C11 C12 C13 C14 C15 C16 C17 C18 C19 C20; do
  s=$(date +%s)
  out=$(./check $p --tier $TIER "$@" 2>&1); rc=$?
  e=$(date +%s)
  echo "$p rc=$rc $((e-s))s $(echo "$out" | grep -E '^(VIOLATION|INCONCLUSIVE)' | head -3 | tr '\n' ' ')"
done
