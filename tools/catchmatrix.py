#!/venv/bin/python
"""Regenerate seeded/CATCH_MATRIX.md from the kept seeded changes' meta.json files."""
import glob, json, os
V = os.path.dirname(os.path.dirname(os.path.abspath(__file__)))
rows = []
for d in sorted(glob.glob(os.path.join(V, "seeded", "C*-*"))):
    m = json.load(open(d + "/meta.json"))
    best = []
    for k, v in m.get("check_results", {}).items():
        keys = [l.split("key=")[1].split(" ")[0] for l in v.get("lines", []) if "key=" in l]
        best.append((k, v.get("rc"), keys))
    clean = lambda t, n: (t or "")[:n].replace("|", "/").replace("\n", " ")
    rows.append((os.path.basename(d), clean(m.get("summary"), 170), clean(m.get("needs_to_manifest"), 200), best))
out = ["# Seeded changes and the checks that catch them", "",
       "Each change was written by an independent sub-agent (see `author` in its meta.json); I verified it in a scratch",
       "worktree (demo fails with / passes without the change, repository suite passes with it: `confirmed_by_me`) and ran",
       "the listed check (quick tier) against the worktree with the change applied. `rc=1` = VIOLATION reported.", "",
       "| change | what it does | needs to manifest | caught by (rc: mechanism keys) |", "|---|---|---|---|"]
for name, summ, needs, best in rows:
    cell = "; ".join(f"{k} rc={rc}: {', '.join(keys[:3])}" for k, rc, keys in best) or "n/a"
    out.append(f"| {name} | {summ} | {needs} | {cell} |")
open(os.path.join(V, "seeded", "CATCH_MATRIX.md"), "w").write("\n".join(out) + "\n")
caught = sum(1 for _, _, _, b in rows if any(rc == 1 for _, rc, _ in b))
print(f"{len(rows)} kept changes, {caught} caught by at least one listed check")
