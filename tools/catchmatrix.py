#!/venv/bin/python
"""Regenerate seeded/CATCH_MATRIX.md from the kept seeded changes' meta.json files."""
import glob, json, os
V = os.path.dirname(os.path.dirname(os.path.abspath(__file__)))
rows = []
for d in sorted(glob.glob(os.path.join(V, "seeded", "C*-*"))):
    m = json.load(open(d + "/meta.json"))
    best = []
    for k, v in m.get("check_results", {}).items():
        keys = [l.split("key=")[1].split(" ")[0] for l in v.get("lines", []) if "key=" in l]
        best.append((k, v.get("rc"), keys))
    clean = lambda t, n: (t or "")[:n].replace("|", "/").replace("\n", " ")
    rows.append((os.path.basename(d), clean(m.get("summary"), 170), clean(m.get("needs_to_manifest"), 200), best))
out = ["# Seeded changes and the checks that catch them", "",
       "Each change was written by an independent sub-agent (see `author` in its meta.json); I verified it in a scratch",
       "worktree (demo fails with / passes without the change, repository suite passes with it: `confirmed_by_me`) and ran",
       "the listed check (quick tier) against the worktree with the change applied. `rc=1` = VIOLATION reported.", "",
       "| change | what it does | needs to manifest | caught by (rc: mechanism keys) |", "|---|---|---|---|"]
for name, summ, needs, best in rows:
    cell = "; ".join(f"{k} rc={rc}: {', '.join(keys[:3])}" for k, rc, keys in best) or "n/a"
    neut = json.load(open(os.path.join(V, "seeded", name, "meta.json"))).get("neutralised_by_fix")
    if neut:
        before = "; ".join(f"{k} rc={v.get('rc')}" for k, v in (neut.get("check_results_before_the_fix") or {}).items())
        cell = f"**neutralised by fix {neut['commit']}** (harmless on the current tree; before the fix: {before})"
    out.append(f"| {name} | {summ} | {needs} | {cell} |")
open(os.path.join(V, "seeded", "CATCH_MATRIX.md"), "w").write("\n".join(out) + "\n")
caught = sum(1 for _, _, _, b in rows if any(rc == 1 for _, rc, _ in b))
neutral = sum(1 for n_, _, _, _ in rows if json.load(open(os.path.join(V, "seeded", n_, "meta.json"))).get("neutralised_by_fix"))
print(f"{len(rows)} kept changes, {caught} caught by at least one listed check, {neutral} neutralised by a later fix: commit")
