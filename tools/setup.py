#!/venv/bin/python
"""setup_cmd: nothing to build. Byte-compile the monitors, selftest the reference
models, check that cooler is imported from /repo and MANIFEST.json is well-formed."""
import compileall
import json
import os
import sys

V = os.path.dirname(os.path.dirname(os.path.abspath(__file__)))
sys.path.insert(0, V)
ok = compileall.compile_dir(os.path.join(V, "mon"), quiet=1)
from mon import model  # noqa: E402
from mon.core import assert_repo_cooler  # noqa: E402

model.selftest()
try:
    from mon import ic
    ic.selftest()
except ImportError:
    pass
assert_repo_cooler()
m = json.load(open(os.path.join(V, "MANIFEST.json")))
assert m["version"] == 1 and m["checks"], "manifest"
for c in m["checks"]:
    for k in ("property_id", "quick_cmd", "evidence_file", "level_claimed", "level_note"):
        assert k in c, (c.get("property_id"), k)
json.load(open(os.path.join(V, "known_findings.json")))
print("setup ok: %d checks registered" % len(m["checks"]))
sys.exit(0 if ok else 1)
