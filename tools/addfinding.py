#!/venv/bin/python
"""dev helper: append one entry to known_findings.json (never used by the checks at run time)
   addfinding.py <property> <key> <status known|fixed> <commit|-> <what> <witness> [why_not_fixed]"""
import json, sys
p = "/verif/known_findings.json"
k = json.load(open(p))
prop, key, status, commit, what, witness = sys.argv[1:7]
e = {"property": prop, "key": key, "status": status}
if status == "fixed":
    e["commit"] = commit
    what = f"fixed: property={prop} {commit} {what}"
e["what"] = what
e["witness"] = witness
if len(sys.argv) > 7:
    e["why_not_fixed"] = sys.argv[7]
assert not any(f["key"] == key for f in k["findings"]), "key exists"
k["findings"].append(e)
json.dump(k, open(p, "w"), indent=1)
print("added", key)
